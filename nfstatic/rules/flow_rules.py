"""C03 / C04 / C18: how Flow and Distribution assemble densities, samples and shapes."""

import ast

from ..astutil import attr_chain, cond_atoms, const_number, product_factors, signed_terms, walk_pc, pc_atoms
from ..model import AnalysisIncomplete, norm_text, stmt_of
from ..report import Finding, RuleResult
from ..symexp import paths_of, is_component, is_synth, expand
from . import register, A_NET, T_OPS, A_API
from .layout import layout_rule


def _flow(p):
    return p.find_class("Flow", "nflows.flows.base")


def _dist(p):
    return p.find_class("Distribution", "nflows.distributions.base")


WRAPPERS = ("split_leading_dim", "merge_leading_dims", "reshape", "view")


def strip_wrappers(e):
    """x under split_leading_dim / merge_leading_dims / reshape wrappers (shape bookkeeping)."""
    while True:
        if isinstance(e, ast.Call):
            f = norm_text(e.func)
            last = f.split(".")[-1]
            if last in ("split_leading_dim", "merge_leading_dims") and e.args:
                e = e.args[0]
                continue
            if f in ("torch.reshape",) and e.args:
                e = e.args[0]
                continue
            if isinstance(e.func, ast.Attribute) and e.func.attr in ("reshape", "view") :
                e = e.func.value
                continue
        return e


class _Canon(ast.NodeTransformer):
    """torch.as_tensor(x) -> x (an identity on tensors) for comparisons of expanded text."""

    def visit_Call(self, node):
        self.generic_visit(node)
        if norm_text(node.func) == "torch.as_tensor" and len(node.args) == 1:
            return node.args[0]
        # divmod(a, b)[0] / [1]  ==  a // b,  a % b
        if is_component(node) and isinstance(node.args[0], ast.Call) and norm_text(node.args[0].func) == "divmod" and len(node.args[0].args) == 2 and node.args[1].value in (0, 1):
            a, b = node.args[0].args
            return ast.BinOp(left=a, op=ast.FloorDiv() if node.args[1].value == 0 else ast.Mod(), right=b)
        return node


def canon_text(e):
    from ..symexp import clone

    if e is None:
        return ""
    return norm_text(_Canon().visit(clone(e)))


def comp_of(e):
    """(call, index) if e is the i-th component of a call result (under shape wrappers)."""
    e = strip_wrappers(e)
    if is_component(e):
        return e.args[0], e.args[1].value
    return None, None


def _is_transform_call(call, direction):
    f = attr_chain(call.func) if isinstance(call, ast.Call) else None
    if direction == "forward":
        return f in ("self._transform", "self._transform.forward")
    return f == "self._transform.inverse"


def _kwarg(call, name, pos=None):
    for k in call.keywords:
        if k.arg == name:
            return k.value
    if pos is not None and len(call.args) > pos:
        return call.args[pos]
    return None


# ---------------------------------------------------------------------------------------
# C03 COV-ASSEMBLE
# ---------------------------------------------------------------------------------------


def cov_assemble_rule(ctx):
    p = ctx.p
    flow = _flow(p)
    fi = flow.methods.get("_log_prob")
    if fi is None:
        raise AnalysisIncomplete("Flow._log_prob missing")
    res = RuleResult("COV-ASSEMBLE", "Flow.log_prob = base.log_prob(noise) + logabsdet, both from one forward call of the transform on the inputs")
    x = fi.params()[0][0]
    npaths = 0
    for path in paths_of(fi.node):
        if path.kind != "return":
            continue
        npaths += 1
        terms = signed_terms(path.ret)
        base_terms = []
        ld_terms = []
        other = []
        for s, t in terms:
            core = strip_wrappers(t)
            if isinstance(core, ast.Call) and attr_chain(core.func) == "self._distribution.log_prob":
                base_terms.append((s, core))
            else:
                call, i = comp_of(t)
                if call is not None and isinstance(call, ast.Call) and attr_chain(call.func) and attr_chain(call.func).startswith("self._transform"):
                    ld_terms.append((s, call, i))
                else:
                    other.append((s, t))
        node = path.ret_node
        if len(base_terms) != 1 or base_terms[0][0] != 1:
            res.fail(Finding("COV-ASSEMBLE", fi.module, fi.qualname, node, "log_prob must contain the base log-density exactly once with sign +; found %s" % [(s, norm_text(c)[:40]) for s, c in base_terms]))
            continue
        if len(ld_terms) != 1 or ld_terms[0][0] != 1 or ld_terms[0][2] != 1:
            res.fail(Finding("COV-ASSEMBLE", fi.module, fi.qualname, node, "log_prob must add the transform's log-abs-det (second component of the forward call) exactly once with sign +; found %s" % [(s, norm_text(c)[:40], i) for s, c, i in ld_terms]))
            continue
        if other:
            res.fail(Finding("COV-ASSEMBLE", fi.module, fi.qualname, node, "log_prob has extra terms %s" % [norm_text(t)[:40] for s, t in other]))
            continue
        tcall = ld_terms[0][1]
        if not _is_transform_call(tcall, "forward"):
            res.fail(Finding("COV-ASSEMBLE", fi.module, fi.qualname, node, "the log-abs-det must come from the forward direction of the transform, not `%s`" % norm_text(tcall.func)))
            continue
        if not tcall.args or norm_text(tcall.args[0]) != x:
            res.fail(Finding("COV-ASSEMBLE", fi.module, fi.qualname, node, "the transform must be applied to the inputs"))
            continue
        bcall = base_terms[0][1]
        ncall, ni = comp_of(bcall.args[0]) if bcall.args else (None, None)
        if ncall is None or ni != 0 or norm_text(ncall) != norm_text(tcall):
            res.fail(Finding("COV-ASSEMBLE", fi.module, fi.qualname, node, "the base density must be evaluated at the noise returned by the same transform call whose log-abs-det is added; it is evaluated at `%s`" % (norm_text(bcall.args[0])[:60] if bcall.args else "<nothing>")))
            continue
        # the same embedded context reaches both calls
        tctx = _kwarg(tcall, "context", 1)
        bctx = _kwarg(bcall, "context", 1)
        if bctx is not None and (tctx is None or norm_text(bctx) != norm_text(tctx)):
            res.fail(Finding("COV-ASSEMBLE", fi.module, fi.qualname, node, "transform and base distribution receive different contexts (%s / %s)" % (norm_text(tctx) if tctx is not None else None, norm_text(bctx))))
            continue
        if tctx is None:
            res.fail(Finding("COV-ASSEMBLE", fi.module, fi.qualname, node, "the transform is not given the (embedded) context"))
            continue
        if "context" not in norm_text(tctx):
            res.fail(Finding("COV-ASSEMBLE", fi.module, fi.qualname, node, "the context passed to the transform does not derive from the context argument"))
            continue
        res.ok("path %d: +base.log_prob(noise) + logabsdet from `%s`" % (npaths, norm_text(tcall)[:60]))
    if npaths < 1:
        raise AnalysisIncomplete("Flow._log_prob has no returning path")
    # log_prob of the public wrapper goes to _log_prob with the same arguments
    lp = _dist(p).methods.get("log_prob")
    rets = [n for n in ast.walk(lp.node) if isinstance(n, ast.Return)]
    if len(rets) == 1 and isinstance(rets[0].value, ast.Call) and attr_chain(rets[0].value.func) == "self._log_prob" and [norm_text(a) for a in rets[0].value.args] == ["inputs", "context"]:
        res.ok("Distribution.log_prob delegates to _log_prob(inputs, context)")
    else:
        res.fail(Finding("COV-ASSEMBLE", lp.module, lp.qualname, lp.node, "Distribution.log_prob does not return self._log_prob(inputs, context)", construct="delegation of log_prob"))
    return res


# ---------------------------------------------------------------------------------------
# BASE-TERMS (C03 / C05)
# ---------------------------------------------------------------------------------------


def _mentions(e, name):
    return any(isinstance(n, ast.Name) and n.id == name for n in ast.walk(e))


def base_terms_rule(ctx):
    p = ctx.p
    res = RuleResult("BASE-TERMS", "normal log-densities: one negative quadratic term in the inputs, one negative normaliser depending on the shape only, and (diagonal normals) one negative summed log-std")
    specs = [("StandardNormal", False), ("ConditionalDiagonalNormal", True), ("DiagonalNormal", True)]
    for cname, has_std in specs:
        cls = p.find_class(cname, "nflows.distributions.normal")
        fi = cls.methods.get("_log_prob")
        if fi is None:
            raise AnalysisIncomplete("%s._log_prob missing" % cname)
        x = fi.params()[0][0]
        n = 0
        from fractions import Fraction

        from ..prodnf import NotMonomial, additive_terms, show_mono, show_term

        def mentions_x(atom):
            import re

            if atom[0] == "leaf":
                return re.search(r"(?<![\w.])%s(?![\w])" % re.escape(x), atom[1]) is not None
            if atom[0] == "lin":
                return any(mentions_x(a) for m, c in atom[1] for a, k in m)
            if atom[0] in ("exp", "sum"):
                return any(mentions_x(a) for a, k in atom[1])
            return False

        for path in paths_of(fi.node):
            if path.kind != "return":
                continue
            n += 1
            node = path.ret_node
            try:
                terms = additive_terms(path.ret)
            except NotMonomial as ex:
                res.undecide("%s._log_prob" % cname, "log-density is not a sum of monomials: %s" % ex)
                continue
            quad, logz, logstd, other = [], [], [], []
            for c, m in terms:
                atoms = list(m.items())
                if len(atoms) == 1 and atoms[0][1] == 1 and atoms[0][0][0] == "sum":
                    (quad if mentions_x(atoms[0][0]) else logstd).append((c, atoms[0][0]))
                elif len(atoms) == 1 and atoms[0][1] == 1 and atoms[0][0] == ("leaf", "self._log_z"):
                    logz.append((c, atoms[0][0]))
                elif any(mentions_x(a) for a, k in atoms):
                    quad.append((c, None))
                    other.append((c, m))
                else:
                    other.append((c, m))
            okp = True
            std_sym = None
            if len(quad) != 1 or quad[0][1] is None:
                res.fail(Finding("BASE-TERMS", fi.module, fi.qualname, node, "expected exactly one input-dependent term, a reduction over the event of a square; found %s" % [show_term(c, m) for c, m in terms if any(mentions_x(a) for a in m)][:3]))
                okp = False
            else:
                c, atom = quad[0]
                inner = dict(atom[1])
                xat = [(a, k) for a, k in inner.items() if mentions_x(a)]
                rest = [(a, k) for a, k in inner.items() if not mentions_x(a)]
                if c != Fraction(-1, 2):
                    res.fail(Finding("BASE-TERMS", fi.module, fi.qualname, node, "the quadratic term must enter with the coefficient -1/2; found %s" % show_term(c, {atom: 1})[:90]))
                    okp = False
                elif atom[2] != "nb=1":
                    res.fail(Finding("BASE-TERMS", fi.module, fi.qualname, node, "the quadratic term is not summed over exactly the event dimensions (sum_except_batch(..., num_batch_dims=1)); found reduction `%s`" % atom[2]))
                    okp = False
                elif len(xat) != 1 or xat[0][1] != 2:
                    res.fail(Finding("BASE-TERMS", fi.module, fi.qualname, node, "the input-dependent term is not -0.5 * sum((...)**2): the inputs enter as `%s`" % show_mono(dict(xat))[:80]))
                    okp = False
                else:
                    xa = xat[0][0]
                    if xa[0] == "lin":
                        coefs = [cc for mm, cc in xa[1] if any(mentions_x(a) for a, k in mm)]
                        if coefs != [1]:
                            res.fail(Finding("BASE-TERMS", fi.module, fi.qualname, node, "the inputs must enter the standardisation with coefficient +1"))
                            okp = False
                    if has_std and okp:
                        exps = [(a, k) for a, k in rest if a[0] == "exp"]
                        if len(exps) != 1 or len(rest) != 1:
                            res.fail(Finding("BASE-TERMS", fi.module, fi.qualname, node, "the centred inputs must be scaled by exp(-log_std) and nothing else; found factors `%s`" % show_mono(dict(rest))[:80]))
                            okp = False
                        elif exps[0][1] != -2:
                            res.fail(Finding("BASE-TERMS", fi.module, fi.qualname, node, "the centred inputs are multiplied by exp(log_std)^%s under the square; a Gaussian divides by the standard deviation (exponent -1, i.e. -2 under the square)" % (exps[0][1] / 2)))
                            okp = False
                        else:
                            std_sym = exps[0][0][1]
                    elif rest and okp:
                        res.fail(Finding("BASE-TERMS", fi.module, fi.qualname, node, "unexpected scaling `%s` of the squared inputs" % show_mono(dict(rest))[:80]))
                        okp = False
            if len(logz) != 1 or logz[0][0] != -1:
                res.fail(Finding("BASE-TERMS", fi.module, fi.qualname, node, "expected the normaliser self._log_z exactly once with sign -; found %s" % [float(c) for c, a in logz]))
                okp = False
            if has_std:
                if len(logstd) != 1 or logstd[0][0] != -1:
                    res.fail(Finding("BASE-TERMS", fi.module, fi.qualname, node, "expected the summed log-std exactly once with coefficient -1; found %s" % [show_term(c, {a: 1})[:60] for c, a in logstd]))
                    okp = False
                elif std_sym is not None:
                    # the log-std that is summed is the one that scales the inputs
                    if logstd[0][1][1] != std_sym:
                        res.fail(Finding("BASE-TERMS", fi.module, fi.qualname, node, "the inputs are not standardised with exp(-log_std) of the same log_std whose sum is subtracted (scaled by exp[%s], subtracted sum[%s])" % (show_mono(std_sym)[:40], show_mono(logstd[0][1][1])[:40])))
                        okp = False
                    elif logstd[0][1][2] != "nb=1":
                        res.fail(Finding("BASE-TERMS", fi.module, fi.qualname, node, "the log-std is not summed over exactly the event dimensions"))
                        okp = False
            elif logstd:
                other.extend((c, {a: 1}) for c, a in logstd)
            if other:
                res.fail(Finding("BASE-TERMS", fi.module, fi.qualname, node, "unexpected extra terms %s" % [show_term(c, m)[:50] for c, m in other]))
                okp = False
            if okp:
                res.ok("%s._log_prob path %d: -1/2 sum(square) %s- log_z" % (cname, n, "- sum(log_std) " if has_std else ""))
        # the normaliser is a function of the constructor's shape and constants only
        ai = p.attrs(cls).get("_log_z")
        if ai is None or ai.value is None:
            res.fail(Finding("BASE-TERMS", cls.module, cname + ".__init__", cls.node, "%s has no _log_z normaliser" % cname, construct="_log_z of " + cname))
        else:
            from ..symexp import inline_expr

            value0 = ai.value
            if ai.func is not None:
                # a local of the constructor that holds the value (log_z = torch.tensor(..); self._log_z = nn.Buffer(log_z))
                from ..symexp import expand

                envs = [q.env for q in paths_of(ai.func.node) if q.kind in ("fallthrough", "return")]
                cands = {norm_text(expand(value0, {k: v for k, v in env.items() if isinstance(k, str) and k != "shape"})) for env in envs}
                if len(cands) == 1 and envs:
                    value0 = expand(value0, {k: v for k, v in envs[0].items() if isinstance(k, str) and k != "shape"})
            alts = inline_expr(value0, ai.func.node if ai.func is not None else None)
            value = alts[0][1] if len(alts) == 1 else value0
            names = {n.id for n in ast.walk(value) if isinstance(n, ast.Name)} - {"torch", "np", "math"}
            if names <= {"shape"} and "shape" in names:
                res.ok("%s._log_z depends on the event shape only" % cname)
            else:
                res.fail(Finding("BASE-TERMS", cls.module, cname + ".__init__", ai.node, "the normaliser must be a function of the event shape only; it mentions %s" % sorted(names)))
            # structure of the Gaussian normaliser: 0.5 * (number of event elements) * log(2 pi)
            core = value
            if isinstance(core, ast.Call) and norm_text(core.func) in ("torch.tensor", "torch.as_tensor") and core.args:
                core = core.args[0]
            ps, fac = product_factors(core)
            ftxt = [norm_text(f).replace(" ", "") for f in fac]
            half = [f for f in fac if const_number(f) == 0.5]
            numel = [t for t in ftxt if t in ("np.prod(shape)", "math.prod(shape)", "torch.Size(shape).numel()", "int(np.prod(shape))", "self._shape.numel()")]
            log2pi = [t for t in ftxt if t in ("np.log(2*np.pi)", "math.log(2*math.pi)", "np.log(2*math.pi)", "math.log(2*np.pi)", "np.log(2.0*np.pi)")]
            wrong_count = [t for t in ftxt if t in ("len(shape)", "shape[0]", "shape[-1]", "len(self._shape)")]
            if wrong_count:
                res.fail(Finding("BASE-TERMS", cls.module, cname + ".__init__", ai.node, "the Gaussian normaliser must count every element of the event shape (prod(shape)); `%s` is wrong for multi-dimensional events" % wrong_count[0]))
            elif len(fac) == 3 and half and numel and log2pi and ps == 1:
                res.ok("%s._log_z = 0.5 * prod(shape) * log(2 pi)" % cname)
            elif len(fac) >= 2 and (not half or not log2pi or ps != 1) and (numel or "shape" in names):
                res.fail(Finding("BASE-TERMS", cls.module, cname + ".__init__", ai.node, "the Gaussian normaliser must be 0.5 * prod(shape) * log(2 pi); found factors %s%s" % ("-" if ps < 0 else "", ftxt)))
            else:
                res.notes.append("%s._log_z has a spelling the rule does not classify: %s" % (cname, ftxt))
    return res


# ---------------------------------------------------------------------------------------
# C04 SLP-ASSEMBLE / NOISE-SRC / SLP-CTX
# ---------------------------------------------------------------------------------------


def slp_assemble_rule(ctx):
    p = ctx.p
    flow = _flow(p)
    fi = flow.methods.get("sample_and_log_prob")
    if fi is None:
        raise AnalysisIncomplete("Flow.sample_and_log_prob missing")
    res = RuleResult("SLP-ASSEMBLE", "Flow.sample_and_log_prob returns (inverse(noise), base_log_prob - logabsdet) from one base draw and one inverse call")
    n = 0
    for path in paths_of(fi.node):
        if path.kind != "return":
            continue
        n += 1
        node = path.ret_node
        if not (isinstance(path.ret, ast.Tuple) and len(path.ret.elts) == 2):
            res.fail(Finding("SLP-ASSEMBLE", fi.module, fi.qualname, node, "must return a pair (samples, log_prob)"))
            continue
        s_e, lp_e = path.ret.elts
        scall, si = comp_of(s_e)
        if scall is None or si != 0 or not _is_transform_call(scall, "inverse"):
            res.fail(Finding("SLP-ASSEMBLE", fi.module, fi.qualname, node, "samples must be the first component of self._transform.inverse(noise, ...)"))
            continue
        terms = signed_terms(lp_e)
        plus, minus, other = [], [], []
        for sg, t in terms:
            c, i = comp_of(t)
            if c is None:
                other.append((sg, t))
            elif attr_chain(c.func) == "self._distribution.sample_and_log_prob" and i == 1:
                plus.append((sg, c))
            elif attr_chain(c.func) and attr_chain(c.func).startswith("self._transform") and i == 1:
                minus.append((sg, c))
            else:
                other.append((sg, t))
        if len(plus) != 1 or plus[0][0] != 1:
            res.fail(Finding("SLP-ASSEMBLE", fi.module, fi.qualname, node, "log_prob must contain the base log-density of the drawn noise exactly once with sign +; found %s" % [(s, norm_text(c)[:40]) for s, c in plus]))
            continue
        if len(minus) != 1 or minus[0][0] != -1:
            res.fail(Finding("SLP-ASSEMBLE", fi.module, fi.qualname, node, "log_prob must subtract the inverse's log-abs-det exactly once; found signs %s" % [s for s, c in minus]))
            continue
        if other:
            res.fail(Finding("SLP-ASSEMBLE", fi.module, fi.qualname, node, "unexpected extra terms %s" % [norm_text(t)[:40] for s, t in other]))
            continue
        if norm_text(minus[0][1]) != norm_text(scall):
            res.fail(Finding("SLP-ASSEMBLE", fi.module, fi.qualname, node, "samples and log-abs-det come from different transform calls"))
            continue
        # the inverse is applied to the noise drawn together with the base log-prob
        ncall, ni = comp_of(scall.args[0]) if scall.args else (None, None)
        if ncall is None or ni != 0 or norm_text(ncall) != norm_text(plus[0][1]):
            res.fail(Finding("SLP-ASSEMBLE", fi.module, fi.qualname, node, "the inverse must be applied to the noise whose base log-density is used"))
            continue
        bcall = plus[0][1]
        if not bcall.args or norm_text(bcall.args[0]) != "num_samples":
            res.fail(Finding("SLP-ASSEMBLE", fi.module, fi.qualname, node, "the base distribution must draw num_samples samples"))
            continue
        res.ok("path %d: (inverse(noise)[0], base_lp - inverse(noise)[1])" % n)
    if n < 2:
        raise AnalysisIncomplete("Flow.sample_and_log_prob: %d returning paths (< 2)" % n)
    return res


def noise_src_rule(ctx):
    p = ctx.p
    flow = _flow(p)
    fi = flow.methods.get("_sample")
    if fi is None:
        raise AnalysisIncomplete("Flow._sample missing")
    res = RuleResult("NOISE-SRC", "Flow.sample inverts the transform on noise drawn from the base distribution with the same sample count and context")
    n = 0
    for path in paths_of(fi.node):
        if path.kind != "return":
            continue
        n += 1
        node = path.ret_node
        scall, si = comp_of(path.ret)
        if scall is None or si != 0 or not _is_transform_call(scall, "inverse"):
            res.fail(Finding("NOISE-SRC", fi.module, fi.qualname, node, "samples must be the first component of self._transform.inverse(noise, ...)"))
            continue
        noise = strip_wrappers(scall.args[0]) if scall.args else None
        if not (isinstance(noise, ast.Call) and attr_chain(noise.func) == "self._distribution.sample"):
            res.fail(Finding("NOISE-SRC", fi.module, fi.qualname, node, "the noise fed to the inverse is not drawn from the base distribution (`%s`)" % (norm_text(noise)[:50] if noise is not None else None)))
            continue
        if not noise.args or "num_samples" not in norm_text(noise.args[0]):
            res.fail(Finding("NOISE-SRC", fi.module, fi.qualname, node, "the base distribution must draw num_samples samples (per context row)"))
            continue
        res.ok("path %d: inverse(base.sample(%s))" % (n, norm_text(noise.args[0])))
    return res


def _strip_replication(e):
    """x under repeat_rows / repeat_interleave / leading-dim wrappers (row bookkeeping)."""
    while True:
        e = strip_wrappers(e)
        if isinstance(e, ast.Call):
            last = norm_text(e.func).split(".")[-1]
            if last == "repeat_rows" and e.args:
                e = e.args[0]
                continue
            if last == "repeat_interleave":
                e = e.func.value if isinstance(e.func, ast.Attribute) and norm_text(e.func.value) != "torch" else (e.args[0] if e.args else e)
                continue
        return e


def slp_ctx_rule(ctx):
    """Sampling and density must condition the same model: in _log_prob, _sample and
    sample_and_log_prob the base distribution and the transform receive one and the same
    function of the context argument (modulo row replication)."""
    from ..symexp import uwalk

    p = ctx.p
    flow = _flow(p)
    res = RuleResult("SLP-CTX", "Flow._log_prob, _sample and sample_and_log_prob hand one and the same function of the context (the embedding) to the base distribution and to the transform")
    seen = {}  # canonical form -> first (method, role, node)
    n = 0
    for mname in ("_log_prob", "_sample", "sample_and_log_prob"):
        fi = flow.methods.get(mname)
        if fi is None:
            raise AnalysisIncomplete("Flow.%s missing" % mname)
        for path in paths_of(fi.node):
            if path.kind != "return":
                continue
            for node in uwalk(path.ret):
                if not isinstance(node, ast.Call):
                    continue
                ch = attr_chain(node.func) or ""
                if ch.startswith("self._distribution."):
                    role = "base"
                    cpos = 1
                elif ch in ("self._transform", "self._transform.forward", "self._transform.inverse"):
                    role = "transform"
                    cpos = 1
                else:
                    continue
                cx = _kwarg(node, "context", cpos)
                if isinstance(cx, ast.Constant) and cx.value is None:
                    # an explicit None on a path taken when the (embedded) context is None
                    ctx_none = any(isinstance(et, ast.Compare) and len(et.ops) == 1 and isinstance(et.comparators[0], ast.Constant) and et.comparators[0].value is None and "context" in norm_text(et.left) and (isinstance(et.ops[0], ast.Is) == bool(pol)) for et, raw, pol in path.conds)
                    if ctx_none:
                        continue
                if cx is None:
                    if role == "transform":
                        res.fail(Finding("SLP-CTX", fi.module, fi.qualname, path.ret_node, "the transform is called without the context in %s" % mname))
                    continue  # an unconditional base: nothing to agree on
                form = canon_text(_strip_replication(cx))
                n += 1
                seen.setdefault(form, []).append((mname, role, fi, path.ret_node))
    if n < 5:
        raise AnalysisIncomplete("SLP-CTX: %d conditioned calls found (< 5)" % n)
    if len(seen) == 1:
        form = next(iter(seen))
        if "context" not in form:
            fi = flow.methods["_log_prob"]
            res.fail(Finding("SLP-CTX", fi.module, fi.qualname, fi.node, "the conditioning value `%s` does not derive from the context argument" % form))
        else:
            res.ok("all %d conditioned calls receive `%s`" % (n, form))
        return res
    # majority form is the reference; report each deviating call once
    ref = max(seen, key=lambda k: len(seen[k]))
    done = set()
    for form, uses in seen.items():
        if form == ref:
            continue
        for mname, role, fi, node in uses:
            if (mname, role, form) in done:
                continue
            done.add((mname, role, form))
            res.fail(Finding("SLP-CTX", fi.module, fi.qualname, node, "%s conditions the %s on `%s` while the other entry points use `%s`: samples and densities would belong to different conditionals" % (mname, role, form[:60], ref[:60])))
    return res


REPLICATE_OK = ("repeat_rows", "repeat_interleave")


# ---------------------------------------------------------------------------------------
# C18
# ---------------------------------------------------------------------------------------


def _exc_name(node):
    e = node.exc
    if isinstance(e, ast.Call):
        e = e.func
    return norm_text(e) if e is not None else ""


def arg_check_rule(ctx):
    p = ctx.p
    dist = _dist(p)
    res = RuleResult("ARG-CHECK", "log_prob rejects a context with a different row count (ValueError) and sample rejects a non-positive / non-integer count (TypeError) before anything is computed")
    # log_prob: evaluated (nfstatic/shapeeval.py) with no context, a context of the same number of rows
    # and one with a different number of rows; only the last must end in ValueError, and before
    # _log_prob is reached (the evaluator stops at the first raising path in statement order)
    from ..axes import Mismatch as _Mis, Unknown as _Unk
    from ..shapeeval import ShapeEval, RaisesExc

    lp = dist.methods.get("log_prob")
    if lp is None:
        raise AnalysisIncomplete("Distribution.log_prob missing")
    lparams = [a for a, _ in lp.params()]
    xin, cxn = lparams[0], (lparams[1] if len(lparams) > 1 else "context")
    x_lay = ((("n", "N", False),), (("d", "D", False),))
    same = ((("m", "N", False),), (("e", "E", False),))
    other = ((("m", "M", False),), (("e", "E", False),))
    verdicts = {}
    for tag, env, pyenv in (("without a context", {xin: x_lay}, {cxn: None}), ("with a context of as many rows", {xin: x_lay, cxn: same}, {}), ("with a context of a different number of rows", {xin: x_lay, cxn: other}, {})):
        ev = ShapeEval(env, pyenv, p, lp.module)
        try:
            ev.run(lp)
            verdicts[tag] = "returns"
        except RaisesExc as ex:
            verdicts[tag] = "raises " + ex.exc
        except _Unk as u:
            verdicts[tag] = "returns" if getattr(u, "past_guards", False) else "undecided: %s" % u
        except _Mis as m:
            verdicts[tag] = "undecided: %s" % m.msg
    und = [v for v in verdicts.values() if v.startswith("undecided")]
    if und:
        res.undecide("Distribution.log_prob", und[0][:120])
    else:
        bad = []
        if verdicts["without a context"] != "returns":
            bad.append("without a context it %s" % verdicts["without a context"])
        if verdicts["with a context of as many rows"] != "returns":
            bad.append("with a context of as many rows as the inputs it %s" % verdicts["with a context of as many rows"])
        if verdicts["with a context of a different number of rows"] != "raises ValueError":
            bad.append("with a context of a different number of rows it %s (must raise ValueError before _log_prob is evaluated)" % verdicts["with a context of a different number of rows"])
        if bad:
            res.fail(Finding("ARG-CHECK", lp.module, lp.qualname, lp.node, "log_prob: " + "; ".join(bad), construct="row-count guard of log_prob"))
        else:
            res.ok("log_prob: ValueError exactly when a context with another number of rows is given, before _log_prob")
    # sample: partial evaluation with every kind of invalid count -- the call must end in a
    # TypeError before the sampler is invoked (and accept the valid counts, BATCH-COUNT)
    from ..peval import PEval, Obj, Sym, SymFn, Undecided as PUndecided, Raises as PRaises

    sm = dist.methods.get("sample")
    if sm is None:
        raise AnalysisIncomplete("Distribution.sample missing")
    methods = {nm: fi.node for nm, fi in dist.methods.items()}
    INVALID = [0, -1, -7, 2.5, 3.0, "4", None, [3], (2,)]
    for pname in ("num_samples", "batch_size"):
        n_bad = 0
        for cx in (None, Sym(("ctx",))):
            for bad in INVALID:
                if pname == "batch_size" and bad is None:
                    continue  # None means: no batching
                n, b = (bad, None) if pname == "num_samples" else (5, bad)
                tag = "sample(%r, context=%s, batch_size=%r)" % (n, "None" if cx is None else "<rows>", b)
                pe = PEval(Obj({"_sample": SymFn("_sample", 1)}, methods))
                try:
                    pe.call_method(sm.node, [n], {"context": cx, "batch_size": b})
                    verdict = "returns a result"
                except PUndecided as ex:
                    # evaluation got stuck on the invalid value before any guard rejected it
                    verdict = "uses the value unchecked (%s)" % str(ex)[:60]
                except PRaises as ex:
                    verdict = None if ex.exc == "TypeError" else "raises %s instead of TypeError (%s)" % (ex.exc or "an error", ex.what[:60])
                except RecursionError:
                    verdict = "does not terminate"
                if verdict is None and pe.symfn_calls:
                    verdict = "calls the sampler (%d call(s)) before rejecting the argument" % len(pe.symfn_calls)
                if verdict is not None:
                    n_bad += 1
                    if n_bad == 1:
                        res.fail(Finding("ARG-CHECK", sm.module, sm.qualname, sm.node, "%s %s: `%s` must be rejected with a TypeError unless it is a positive int, before anything is drawn" % (tag, verdict, pname), construct="%s guard of sample" % pname))
        if not n_bad:
            res.ok("sample: %s in %s is rejected with TypeError before _sample is called, with and without a context" % (pname, INVALID))
    return res


def arg_entry_rule(ctx):
    """ARG-ENTRY: the private samplers (`_sample` of any object) are reached from a *public* method
    of a Distribution subclass only with counts that the method has validated on that path
    (`is_positive_int`, the TypeError guard), or through another public entry point (`sample`,
    `sample_and_log_prob`), which validates itself.  A public override that calls `self._sample`
    directly hands un-validated counts to torch (empty results, RuntimeError instead of TypeError)."""
    from ..symexp import paths_of, uwalk

    p = ctx.p
    dist = _dist(p)
    res = RuleResult("ARG-ENTRY", "no public method of a distribution hands a count it has not validated to a private sampler: every `._sample(n, ..)` reached from a public method has n validated by is_positive_int on that path")
    classes = [dist] + [c for c in p.subclasses_of(dist) if c is not dist]
    seen_funcs = set()
    n_sites = 0

    def positive_int_checked(path):
        ok = set()
        for et, raw, pol in path.conds:
            stack = [(et, pol)]
            while stack:
                t, pl = stack.pop()
                if isinstance(t, ast.UnaryOp) and isinstance(t.op, ast.Not):
                    stack.append((t.operand, not pl))
                elif isinstance(t, ast.BoolOp) and ((isinstance(t.op, ast.And) and pl) or (isinstance(t.op, ast.Or) and not pl)):
                    stack.extend((v, pl) for v in t.values)
                elif pl and isinstance(t, ast.Call) and norm_text(t.func).split(".")[-1] == "is_positive_int" and len(t.args) == 1:
                    r = p.resolve_expr(fi_cur[0].module, t.func) if not isinstance(t.func, ast.Name) or True else None
                    if getattr(r, "name", None) == "is_positive_int" and getattr(getattr(r, "module", None), "name", "") == "nflows.utils.typechecks":
                        ok.add(norm_text(t.args[0]))
        return ok

    fi_cur = [None]

    def check_function(fi, cls, validated_params, depth, via):
        nonlocal n_sites
        fi_cur[0] = fi
        params = [a for a, _ in fi.params()]
        try:
            paths = paths_of(fi.node)
        except AnalysisIncomplete as ex:
            res.undecide("%s.%s" % (cls.name, fi.name), str(ex))
            return
        for path in paths:
            if path.kind == "raise":
                continue
            roots = [path.ret] if path.ret is not None else []
            for eff in path.effects:
                roots.extend(x for x in eff[2:] if isinstance(x, ast.AST))
            valid = positive_int_checked(path) | set(validated_params)
            for root in roots:
                for n in uwalk(root):
                    if not (isinstance(n, ast.Call) and isinstance(n.func, ast.Attribute)):
                        continue
                    name = n.func.attr
                    count = n.args[0] if n.args else next((k.value for k in n.keywords if k.arg == "num_samples"), None)
                    if name.startswith("_sample"):
                        n_sites += 1
                        if count is None:
                            res.undecide("%s.%s" % (cls.name, fi.name), "a private sampler is called without a count (`%s`)" % norm_text(n)[:50])
                            continue
                        free = [x for x in uwalk(count) if isinstance(x, ast.Name) and x.id in params]
                        bad = [x.id for x in free if x.id not in valid]
                        if const_number(count) is not None and const_number(count) > 0:
                            bad = []
                        if bad:
                            res.fail(Finding("ARG-ENTRY", fi.module, fi.qualname, fi.node, "%s%s.%s calls the private sampler `%s` with the count `%s` although `%s` has not been validated on this path (no `if not is_positive_int(%s): raise TypeError`): an invalid count (0, -3, 2.5) reaches torch instead of being rejected with a TypeError. Call the public `sample` or validate first" % (via, cls.name, fi.name, norm_text(n.func)[:40], norm_text(count)[:30], bad[0], bad[0]), construct="%s.%s -> %s" % (cls.name, fi.name, norm_text(n.func)[:40])))
                        else:
                            res.ok("%s%s.%s: `%s(%s, ..)` only with a validated count" % (via, cls.name, fi.name, norm_text(n.func)[:40], norm_text(count)[:30]))
                    elif isinstance(n.func.value, ast.Name) and n.func.value.id == "self" and name.startswith("_") and not name.startswith("__") and depth < 3:
                        # a private helper that was not expanded: follow it with what is validated here
                        h = cls.lookup_method(name)
                        if h is None or (h.qualname, tuple(sorted(valid))) in seen_funcs:
                            continue
                        hp = [a for a, _ in h.params()]
                        vmap = set()
                        for i, a in enumerate(n.args):
                            if i < len(hp) and all(x.id in valid or x.id not in params for x in uwalk(a) if isinstance(x, ast.Name)) and any(isinstance(x, ast.Name) and x.id in params for x in uwalk(a)):
                                vmap.add(hp[i])
                        for k in n.keywords:
                            if k.arg in hp and all(x.id in valid or x.id not in params for x in uwalk(k.value) if isinstance(x, ast.Name)) and any(isinstance(x, ast.Name) and x.id in params for x in uwalk(k.value)):
                                vmap.add(k.arg)
                        seen_funcs.add((h.qualname, tuple(sorted(valid))))
                        cur = fi_cur[0]
                        check_function(h, cls, vmap, depth + 1, via + "%s.%s -> " % (cls.name, fi.name))
                        fi_cur[0] = cur

    for cls in classes:
        for name, fi in sorted(cls.methods.items()):
            if name.startswith("_") or id(fi.node) in seen_funcs:
                continue
            seen_funcs.add(id(fi.node))
            check_function(fi, cls, set(), 0, "")
    if n_sites < 2:
        raise AnalysisIncomplete("ARG-ENTRY: %d private-sampler call sites reachable from public methods (< 2: Distribution.sample has the unbatched and the batched ones)" % n_sites)
    return res



def batch_rule(ctx):
    """BATCH-COUNT / BATCH-CAT by partial evaluation (nfstatic/peval.py) of Distribution.sample
    for every (num_samples, batch_size) in a grid and with / without a context: `_sample` is an
    uninterpreted function, so the result is a term -- one call, or a concatenation of calls --
    and the property reads off it: the calls draw num_samples samples in total, none more than
    batch_size, all with the given context, concatenated along the sample axis (0 without a
    context, 1 with one)."""
    from ..peval import PEval, Obj, Sym, SymFn, Undecided as PUndecided, Raises as PRaises, show

    p = ctx.p
    dist = _dist(p)
    sm = dist.methods.get("sample")
    if sm is None:
        raise AnalysisIncomplete("Distribution.sample missing")
    res_cat = RuleResult("BATCH-CAT", "batches of samples are concatenated along the sample axis: dim 0 without a context, dim 1 with one")
    res_cnt = RuleResult("BATCH-COUNT", "batched generation draws exactly num_samples samples in batches of at most batch_size, all with the same context")
    methods = {nm: fi.node for nm, fi in dist.methods.items()}
    reported = set()

    def report(res, rule, key, msg):
        if key in reported:
            return
        reported.add(key)
        res.fail(Finding(rule, sm.module, sm.qualname, sm.node, msg, construct=key))

    n_ok = 0
    thorough = getattr(ctx, "tier", "quick") == "thorough"
    n_range = range(1, 41) if thorough else range(1, 8)
    b_values = (None,) + tuple(range(1, 45)) if thorough else (None, 1, 2, 3, 4, 7, 9)
    for cx in (None, Sym(("ctx",))):
        for n in n_range:
            for b in b_values:
                tag = "sample(%d, context=%s, batch_size=%s)" % (n, "None" if cx is None else "<rows>", b)
                obj = Obj({"_sample": SymFn("_sample", 1)}, methods)
                pe = PEval(obj)
                try:
                    r = pe.call_method(sm.node, [n], {"context": cx, "batch_size": b})
                except PUndecided as ex:
                    res_cnt.undecide("Distribution.%s" % tag, str(ex))
                    continue
                except PRaises as ex:
                    report(res_cnt, "BATCH-COUNT", "raises for valid arguments", "%s raises: %s" % (tag, ex.what))
                    continue
                if not isinstance(r, Sym):
                    res_cnt.undecide("Distribution.%s" % tag, "does not return a tensor")
                    continue
                t = r.term
                # a result trimmed along axis 0: fine without a context (axis 0 is the sample
                # axis), a loss of context rows with one
                trimmed = None
                if isinstance(t, tuple) and t and t[0] == "slice0":
                    if cx is not None:
                        report(res_cat, "BATCH-CAT", "trim along axis 0 with a context", "%s trims the joined batches with [:%s] along axis 0, which is the context axis when a context is given ([rows, n, ...])" % (tag, t[2]))
                        continue
                    trimmed, t = t[2], t[1]
                # per-batch [rows, b] pairs merged to [rows*b], joined, and split as [rows, n]
                if isinstance(t, tuple) and t and t[0] == "split" and isinstance(t[1], tuple) and t[1][0] == "cat" and all(isinstance(q, tuple) and q[0] == "merge" for q in t[1][1]):
                    if len(t[1][1]) > 1:
                        report(res_cat, "BATCH-CAT", "merged batches split as [rows, n]", "%s merges each [rows, batch] pair to rows*batch, concatenates the batches and splits as [rows, n]: the merged axis is ordered (batch, row, sample), so the rows of different contexts interleave" % tag)
                        continue
                    t = t[1][1][0][1]
                elif isinstance(t, tuple) and t and t[0] == "split" and isinstance(t[1], tuple) and t[1][0] == "merge":
                    t = t[1][1]
                parts, dim = ([t], None)
                if isinstance(t, tuple) and t and t[0] == "cat":
                    parts, dim = list(t[1]), t[2]
                okc = True
                counts = []
                for q in parts:
                    if not (isinstance(q, tuple) and q[:2] == ("call", "_sample") and len(q) == 4):
                        res_cnt.undecide("Distribution.%s" % tag, "result `%s` is not built from _sample calls only" % show(t)[:80])
                        okc = False
                        break
                    counts.append(q[2])
                    if q[3] != (cx.term if cx is not None else None):
                        report(res_cnt, "BATCH-COUNT", "context of the batches", "%s draws a batch with context `%s`: every batch must be drawn for the given context" % (tag, q[3]))
                        okc = False
                if not okc:
                    continue
                if not all(isinstance(k, int) for k in counts):
                    res_cnt.undecide("Distribution.%s" % tag, "symbolic batch sizes")
                    continue
                if trimmed is not None and isinstance(trimmed, int) and sum(counts) >= trimmed and (dim in (0, None)):
                    # drawn in full batches, then cut back to the requested number
                    extra = sum(counts) - trimmed
                    counts = counts[:-1] + [counts[-1] - extra] if extra <= counts[-1] else counts
                    if extra > 0 and sum(counts) != trimmed:
                        counts = [trimmed]
                if sum(counts) != n:
                    report(res_cnt, "BATCH-COUNT", "total number of samples", "%s draws batches of %s = %d samples; %d were requested" % (tag, counts, sum(counts), n))
                    continue
                if b is not None and any(k > b or k < 1 for k in counts):
                    report(res_cnt, "BATCH-COUNT", "batch size bound", "%s draws batches of %s: a batch exceeds batch_size (or is empty)" % (tag, counts))
                    continue
                if b is None and counts != [n]:
                    report(res_cnt, "BATCH-COUNT", "unbatched path of sample", "%s: without batch_size, sample must be one _sample(num_samples, context) call (found %s)" % (tag, counts))
                    continue
                if len(parts) > 1:
                    want_dim = 0 if cx is None else 1
                    if dim != want_dim:
                        report(res_cat, "BATCH-CAT", "concatenation axis %s a context" % ("with" if cx is not None else "without"), "%s concatenates the batches along dim %s; _sample returns %s, so the sample axis is %d" % (tag, dim, "[rows, n, ...]" if cx is not None else "[n, ...]", want_dim))
                        continue
                n_ok += 1
    if n_ok:
        res_cnt.ok("%d (num_samples, batch_size, context) combinations: exact count, bounded batches, one context" % n_ok)
        res_cat.ok("batches concatenated along the sample axis in every evaluated combination")
    return [res_cat, res_cnt]


def batch_cat_rule(ctx):
    """BATCH-CAT for C04: with batch_size, sample(n, context) still draws its i-th block for context row i
    (the batches are joined along the sample axis, never through a merged axis split in another order)."""
    return [r for r in batch_rule(ctx) if r.rule == "BATCH-CAT"]


def sample_shape_rule(ctx):
    """SAMPLE-SHAPE: every _sample implementation returns [n, ...] / [rows, n, ...]."""
    p = ctx.p
    res = RuleResult("SAMPLE-SHAPE", "every sampler returns num_samples draws per context row, shaped [rows, num_samples, ...]")
    dist = _dist(p)
    n = 0
    for cls in p.subclasses_of(dist):
        fi = cls.methods.get("_sample")
        if fi is None or cls is dist:
            continue
        from ..entries import _only_raises

        if _only_raises(fi):
            continue
        n += 1
        okc = True
        for path in paths_of(fi.node):
            if path.kind != "return":
                continue
            r = path.ret
            if isinstance(r, ast.Call):
                f = norm_text(r.func)
                last = f.split(".")[-1]
                if last == "split_leading_dim":
                    shp = _kwarg(r, "shape", 1)
                    if isinstance(shp, (ast.List, ast.Tuple)) and len(shp.elts) == 2 and "num_samples" in norm_text(shp.elts[1]) and "num_samples" not in norm_text(shp.elts[0]):
                        continue
                    res.fail(Finding("SAMPLE-SHAPE", fi.module, fi.qualname, path.ret_node, "samples must be split as [context rows, num_samples]"))
                    okc = False
                elif last in ("randn", "rand") and r.args and norm_text(r.args[0]) == "num_samples":
                    continue
                elif last == "sample" or "made" in f:
                    continue  # delegation (checked at the delegate)
        if okc:
            res.ok("%s._sample" % cls.name)
    if n < 4:
        raise AnalysisIncomplete("SAMPLE-SHAPE: %d samplers (< 4)" % n)
    return res


def _ld_state(ctx):
    from .ld_rules import ld_state_rule

    return ld_state_rule(ctx)


register(
    "C03",
    [cov_assemble_rule, base_terms_rule, _ld_state],
    "COV-ASSEMBLE: path-wise symbolic expansion of Flow._log_prob; on every returning path the result's signed-sum normal form "
    "must be exactly +self._distribution.log_prob(noise[, context]) + logabsdet with noise and logabsdet the two components of "
    "one forward call of self._transform on the inputs and the same embedded context at both calls (spelling-independent: "
    "a+b, a-(-b), += are equal). BASE-TERMS: the log-densities of the three normal bases are signed sums of exactly one "
    "negative -0.5*sum_except_batch((.)**2, num_batch_dims=1) term in the inputs, one negative normaliser that is a function of "
    "the event shape only, and for the diagonal normals one negative summed log-std which is the same symbol that standardises "
    "the inputs through exp(-log_std). The onto-half for bounded transformers (end-point pinning, identity tails) is decided "
    "by the C09 rules. The integral itself (normalisation to one) is out of reach and not claimed.",
    [A_API, "the transform's forward returns (noise, log|det J|) (C01/C02 rules)", "the value of the Gaussian normaliser is not checked"],
)

def slp_latent_rule(ctx):
    """SLP-LATENT.  The value sample_and_log_prob reports for a sample is log_prob *of that sample*: a function of
    the sample (and the context) alone.  A sampler of a mixture / hierarchical model draws a latent first (the
    component index) and the value given the latent; the density of the value marginalises the latent out
    (logsumexp over components), whereas `log pi[z] + log N(x; mu[z], sigma[z])` is the joint density of (x, z)
    -- strictly smaller.  Decided on the def-use slice of the returned log-probability inside every
    sample_and_log_prob / _sample_and_log_prob of the library: followed backwards through assignments,
    augmented assignments and subscript stores, stopping at the returned samples (and at names stored into
    them), it must not reach a discrete random draw (torch.multinomial / randint / bernoulli, Categorical(..).sample)."""
    from .shared_rules import _functions, _own_nodes

    p = ctx.p
    res = RuleResult("SLP-LATENT", "the log-probability returned by a sample_and_log_prob depends on the discrete latent draws of the sampler (component indices) only through the returned samples: the latent is marginalised, not scored")
    DRAWS = ("multinomial", "randint", "bernoulli", "randperm")
    n = 0
    for mod, qual, fn, cls in _functions(p):
        if fn.name not in ("sample_and_log_prob", "_sample_and_log_prob"):
            continue
        n += 1
        nodes = _own_nodes(fn)
        rets = [r.value for r in nodes if isinstance(r, ast.Return) and isinstance(r.value, ast.Tuple) and len(r.value.elts) == 2]
        if not rets:
            res.ok("%s: does not return a written-out (samples, log_prob) pair (delegates)" % qual, nontrivial=False)
            continue
        stop = {x.id for r in rets for x in ast.walk(r.elts[0]) if isinstance(x, ast.Name)}
        # names whose value is what gets stored into the samples
        for a in nodes:
            if isinstance(a, ast.Assign):
                for t in a.targets:
                    base = t
                    while isinstance(base, ast.Subscript):
                        base = base.value
                    if isinstance(t, ast.Subscript) and isinstance(base, ast.Name) and base.id in stop:
                        v = a.value
                        while isinstance(v, ast.Call) and isinstance(v.func, ast.Attribute) and v.func.attr in ("detach", "clone", "contiguous", "float", "to") :
                            v = v.func.value
                        if isinstance(v, ast.Name):
                            stop.add(v.id)
        DISCRETE = ("Categorical", "OneHotCategorical", "Bernoulli", "Multinomial", "Binomial", "Poisson", "Geometric")
        dist_names = {t.id for a in nodes if isinstance(a, ast.Assign) and isinstance(a.value, ast.Call) and norm_text(a.value.func).split(".")[-1] in DISCRETE for t in a.targets if isinstance(t, ast.Name)}
        todo = [x.id for r in rets for x in ast.walk(r.elts[1]) if isinstance(x, ast.Name)]
        seen, hit = set(), None
        while todo and hit is None:
            nm = todo.pop()
            if nm in seen or nm in stop:
                continue
            seen.add(nm)
            for a in nodes:
                vals = []
                if isinstance(a, ast.Assign):
                    for t in a.targets:
                        names_t = [x for x in ast.walk(t) if isinstance(x, ast.Name) and isinstance(x.ctx, ast.Store)]
                        base = t
                        while isinstance(base, ast.Subscript):
                            base = base.value
                        if any(x.id == nm for x in names_t):
                            # tuple targets: the matching element of a tuple value, else the whole value
                            if isinstance(t, ast.Tuple) and isinstance(a.value, ast.Tuple) and len(t.elts) == len(a.value.elts):
                                vals += [v for tt, v in zip(t.elts, a.value.elts) if isinstance(tt, ast.Name) and tt.id == nm]
                            else:
                                vals.append(a.value)
                        elif isinstance(t, ast.Subscript) and isinstance(base, ast.Name) and base.id == nm:
                            vals += [a.value, t.slice]
                elif isinstance(a, ast.AugAssign):
                    base = a.target
                    while isinstance(base, ast.Subscript):
                        base = base.value
                    if isinstance(base, ast.Name) and base.id == nm:
                        vals.append(a.value)
                elif isinstance(a, ast.For) and any(isinstance(x, ast.Name) and x.id == nm for x in ast.walk(a.target)):
                    vals.append(a.iter)
                for v in vals:
                    for c in ast.walk(v):
                        if isinstance(c, ast.Call) and isinstance(c.func, ast.Attribute) and (c.func.attr in DRAWS or (c.func.attr in ("sample", "sample_n") and ((isinstance(c.func.value, ast.Call) and norm_text(c.func.value.func).split(".")[-1] in DISCRETE) or (isinstance(c.func.value, ast.Name) and c.func.value.id in dist_names)))):
                            hit = (c, a, nm)
                        if isinstance(c, ast.Name) and isinstance(c.ctx, ast.Load):
                            todo.append(c.id)
        if hit is None:
            res.ok("%s: the returned log-probability reaches no discrete draw except through the samples" % qual)
        else:
            c, a, nm = hit
            res.fail(Finding("SLP-LATENT", mod, qual, a, "the log-probability %s returns is computed from `%s`, which holds / selects by the discrete draw `%s`: it scores the latent the sampler happened to draw together with the value (log p(x, z) = log pi[z] + log p(x | z)), not the density of the value (log p(x) = logsumexp_z ..), so it is smaller than what log_prob assigns to the same sample" % (qual, nm, norm_text(c)[:60]), construct="latent draw in the log-probability of %s" % qual))
    if n < getattr(ctx, "slp_latent_floor", 2):
        raise AnalysisIncomplete("SLP-LATENT: %d sample_and_log_prob implementations found (< 2: Distribution and Flow have one each on the pinned tree)" % n)
    return res


register(
    "C04",
    [slp_assemble_rule, noise_src_rule, slp_ctx_rule, layout_rule, batch_cat_rule, slp_latent_rule],
    "SLP-CTX: the context expression handed to the base distribution and to the transform on every returning path of "
    "Flow._log_prob, _sample and sample_and_log_prob, normalised modulo row replication, must be one single function of the "
    "context argument (today self._embedding_net(context)); a deviating entry point scores or draws under a different conditional. "
    "SLP-ASSEMBLE: symbolic expansion of Flow.sample_and_log_prob: on every returning path the pair is (inverse(noise)[0], "
    "+base_log_prob - inverse(noise)[1]) with noise and base_log_prob the two components of one sample_and_log_prob(num_samples) "
    "call of the base and both inverse components from one call. NOISE-SRC: Flow._sample inverts base.sample(num_samples...). "
    "LEAD-LAYOUT: abstract evaluation of a leading-axis layout (ROWS, PAIR(a,b), MERGED(a outer, b inner), fresh noise) over the "
    "expansion of the eight samplers: element-wise operations unify layouts (broadcasting aligns trailing axes), merge / split / "
    "reshape / repeat_rows / repeat / sub-sampler calls transform them; an order conflict (noise drawn as [n, rows] split as "
    "[rows, n], a tiled context next to row-major samples, per-row parameters broadcast onto the sample axis) is reported. "
    "(LEAD-LAYOUT replaces round 1's syntactic CTX-PAIR lint.) BATCH-CAT (shared with C18): Distribution.sample with a batch size, "
    "partially evaluated over a grid of counts with _sample uninterpreted, joins the batches along the sample axis. The statistical half (samples follow exp(log_prob)) is out of reach.",
    [A_API, T_OPS, "repeat_rows / merge_leading_dims / split_leading_dim behave as specified (C20 UT-RESHAPE)"],
)

def shape_memo_rule(ctx):
    """SHP-MEMO: the number of rows a call returns follows the rows of *this* call's arguments.  A tensor (or a
    container of them) kept in a plain attribute by one distribution / flow call and handed back by a later one
    has the earlier call's row count (the ownership analysis' OWN-ATTR findings, under this property's reading)."""
    from .own_rules import memo_findings

    r = memo_findings(ctx, "SHP-MEMO", "a later call that returns (or computes with) the kept tensor gets the number of rows of the call that made it, not of its own context / inputs")
    # this property is about distributions and flows; a memo inside a transform is C16's / C19's report
    r.findings[:] = [f for f in r.findings if "/distributions/" in "/" + f.file or "/flows/" in "/" + f.file or f.file.endswith("nn/nde/made.py")]
    return r


def ctx_keep_rule(ctx):
    """CTX-KEEP (= OWN-ARG in the distribution files, shared with C13): a sampler does not write the context it is
    given.  A context overwritten by one batch of draws is the context the next batch -- and every later call --
    is conditioned on: generating the samples in batches then changes their distribution."""
    from .own_rules import arg_findings

    return arg_findings(ctx, "CTX-KEEP", "the tensor the caller passed (the context) is overwritten by the draw, so later batches / calls are conditioned on something else: batching changes the distribution of the samples", lambda rel: "/distributions/" in "/" + rel or "/flows/" in "/" + rel or rel.endswith("nn/nde/made.py"))


register(
    "C18",
    [arg_check_rule, arg_entry_rule, batch_rule, sample_shape_rule, layout_rule, shape_memo_rule, ctx_keep_rule],
    "ARG-CHECK: guard dominance in Distribution.log_prob (ValueError under context is not None and differing row counts, before "
    "_log_prob) and, by partial evaluation with every kind of invalid count, Distribution.sample (TypeError before the sampler is "
    "invoked). ARG-ENTRY: no public method of a Distribution subclass (Flow included) hands a count it has not validated with "
    "is_positive_int to a private `_sample`; other public entry points are reached through `sample` / `sample_and_log_prob`. "
    "BATCH-CAT: on each batched path of sample the concatenation axis must be the sample axis -- 0 exactly when context is None, "
    "1 otherwise -- decided from the path condition or a conditional dim; a constant dim under a path condition that does not "
    "decide `context is None` is wrong for one of the two cases. BATCH-COUNT: normal-form comparison of the full-batch "
    "comprehension and the remainder batch. SAMPLE-SHAPE / LEAD-LAYOUT: every sampler returns [rows, num_samples, ...].",
    [A_API, "typechecks.is_positive_int is as specified (C20 UT-PRED)"],
)
