"""C15 -- saving and reloading a model reproduces the same function.

The reload property fails exactly when something that determines the function is neither a
consequence of the constructor arguments nor in the state dict: a dataflow question.
"""

import ast

from ..entries import enumerate_entries, entry_args
from ..interp import Interp, OBJ, AV, T, NUM, TOP, E, all_ann, NONE
from ..model import AnalysisIncomplete, ClassInfo, PARAM, BUFFER, MODULE, MODULELIST, EXTMODULE, FACTORY, PLAIN, norm_text
from ..report import Finding, RuleResult
from ..taint import TaintDomain
from . import register, T_NN, T_OPS
from .own_rules import analyse as own_analyse, EVAL_KINDS


class CtorDomain(TaintDomain):
    """Runs constructors: label RNG marks values drawn from a random source."""

    name = "ctor-rng"

    def __init__(self):
        self.stores = []  # (cls, attr, labels, node, how, persistent)
        self.last = {}

    def xfer(self, interp, op, info, anns, recv, args, kwargs, node):
        out = set(anns)
        if info.get("rng"):
            out.add("RNG")
        return out

    def numpy_call(self, interp, dotted, args, kwargs, node):
        if ".random." in dotted:
            return AV("num", None, frozenset({"RNG"}))
        return None

    def on_write(self, interp, how, target, value, node):
        # init.uniform_(t) etc.: the written tensor becomes random
        pass

    def op(self, interp, op, info, recv, args, kwargs, node):
        from .. import tops

        if info.get("cat") == "init":
            if op in tops.RNG_INIT and recv is not None:
                return AV(recv.kind, None, recv.ann | {"RNG"})
            return recv
        return super().op(interp, op, info, recv, args, kwargs, node)

    def on_attr_store(self, interp, obj, attr, value, node):
        for cls, path in obj.data:
            self.stores.append((cls, attr, set(all_ann(self, value)), node, "assign", None, interp.frame.func))
            self.last[(cls.name, attr)] = value

    def plain_expr(self, interp, one, cls, path, ai, v, node):
        # inside a constructor a plain attribute reads back what was just stored
        return self.last.get((cls.name, ai.name))

    def plain_param(self, interp, one, cls, path, ai, node):
        return self.last.get((cls.name, ai.name))

    def on_register(self, interp, obj, kind, name, value, persistent, node):
        pers = True
        if persistent is not None and persistent.kind == "const":
            pers = bool(persistent.data)
        elif persistent is not None and persistent.kind != "const":
            pers = None
        for cls, path in obj.data:
            self.stores.append((cls, name, set(all_ann(self, value)), node, kind, pers, interp.frame.func))


def run_ctors(p):
    dom = CtorDomain()
    it = Interp(p, dom)
    n = 0
    for cls in p.all_classes():
        if not cls.is_nn_module():
            continue
        init = cls.lookup_method("__init__")
        if init is None:
            continue
        args = []
        for i, (pname, default) in enumerate(init.params()):
            if isinstance(default, ast.Constant) and isinstance(default.value, bool):
                args.append(NUM())  # explore both settings of boolean switches
            elif isinstance(default, ast.Constant) and default.value is None:
                args.append(AV("num", None, E, True))
            elif pname in ("permutation", "mask", "shift", "scale"):
                args.append(T())
            elif pname in ("transform_net_create_fn", "unconditional_transform", "activation", "context_encoder", "embedding_net", "transform", "distribution", "autoregressive_net", "transforms"):
                args.append(TOP())
            else:
                args.append(NUM())
        it.run_function(init, OBJ(cls), args)
        n += 1
    return dom, it, n


def eval_reads(p):
    """(class name, attr) pairs read on evaluation paths."""
    reads = set()

    class ReadDom(TaintDomain):
        def on_state_read(self, interp, cls, path, attr, node):
            for c in cls.repo_mro():
                reads.add((c.name, attr))

    dom = ReadDom()
    it = Interp(p, dom)
    for e in enumerate_entries(p):
        if e.kind not in EVAL_KINDS:
            continue
        self_av = OBJ(e.cls) if e.cls is not None and not e.func.is_static else None
        it.run_function(e.func, self_av, entry_args(dom, e))
    return reads


def findings_rng(p):
    res = RuleResult("PERS-RNG", "")
    _pers_rng(p, res)
    return res.findings


def _kind_of(p, cls, attr):
    ai = p.attrs(cls).get(attr)
    return ai


def _pers_rng(p, res):
    dom, it, n = run_ctors(p)
    reads = eval_reads(p)
    seen = set()
    for cls, attr, labels, node, how, pers, fi in dom.stores:
        if "RNG" not in labels:
            continue
        key = (cls.name, attr, how, pers)
        if key in seen:
            continue
        seen.add(key)
        ai = _kind_of(p, cls, attr)
        kinds = {a.kind for a in ([ai] + ai.alts)} if ai is not None else set()
        read = any((c.name, attr) in reads for c in cls.repo_mro())
        if how in ("register_buffer",):
            if pers is True:
                res.ok("%s.%s: random value registered as a persistent buffer" % (cls.name, attr))
            elif pers is False:
                res.fail(Finding("PERS-RNG", fi.module, fi.qualname, node, "buffer '%s' holds a randomly drawn value but is registered with persistent=False: a reloaded model built under another seed computes a different function" % attr))
            else:
                res.undecide("%s.%s" % (cls.name, attr), "persistent= is not a constant")
        elif how == "register_parameter":
            res.ok("%s.%s: random value registered as a parameter" % (cls.name, attr))
        else:
            if kinds & {PARAM, MODULE, MODULELIST, EXTMODULE}:
                res.ok("%s.%s: random initial value stored as %s" % (cls.name, attr, "/".join(sorted(kinds))))
            elif kinds and kinds <= {BUFFER}:
                res.ok("%s.%s: buffer" % (cls.name, attr))
            elif read:
                res.fail(Finding("PERS-RNG", fi.module, fi.qualname, node, "attribute '%s' of %s holds a randomly drawn value, is read on an evaluation path, and is a plain attribute: it does not travel in the state dict" % (attr, cls.name)))
            else:
                res.ok("%s.%s: random value in a plain attribute that no evaluation path reads (constructor-only alias)" % (cls.name, attr), nontrivial=False)
    res.notes.append("%d constructors interpreted, %d attribute stores, %d (class, attr) pairs read on evaluation paths" % (n, len(dom.stores), len(reads)))
    return dom, reads


def pers_rng_rule(ctx):
    res = RuleResult("PERS-RNG", "every randomly drawn value that is stored on the model and read on an evaluation path is a parameter or a persistent buffer")
    _pers_rng(ctx.p, res)
    if len(res.instances) < 8:
        raise AnalysisIncomplete("PERS-RNG: %d random stores found (< 8 confirmed by hand)" % len(res.instances))
    return res


def pers_mut_rule(ctx):
    """Attributes written after construction on evaluation paths must travel."""
    p = ctx.p
    res = RuleResult("PERS-MUT", "every attribute an evaluation path may write (running statistics, initialisation flag and parameters) is a parameter or persistent buffer")
    dom, it, ents = ctx.shared(("own", EVAL_KINDS), lambda: own_analyse(p, EVAL_KINDS))
    seen = set()
    for clsname, attr, site, why in dom.state_writes:
        if clsname == "LinearCache" or (clsname, attr) in seen:
            continue
        seen.add((clsname, attr))
        cls = p.find_class(clsname)
        name = attr.split(".")[-1]
        ai = p.attrs(cls).get(name)
        if ai is None:
            res.undecide("%s.%s" % (clsname, attr), "attribute not in the constructor table")
            continue
        if ai.kind == PARAM or (ai.kind == BUFFER and ai.extra is True):
            res.ok("%s.%s is written on an evaluation path and travels (%s)" % (clsname, name, ai.kind))
        else:
            res.fail(Finding("PERS-MUT", ai.cls.module, "%s.__init__" % ai.cls.name, ai.node, "'%s' is mutated by evaluation (%s) but is %s: the learnt/recorded value is lost on save+reload" % (name, why, "a non-persistent buffer" if ai.kind == BUFFER else "a plain attribute")))
    if len(res.instances) < 3:
        raise AnalysisIncomplete("PERS-MUT: %d mutated attributes found (< 3; the count on the pinned tree is larger, the floor leaves room for merged call sites confirmed by hand)" % len(res.instances))
    return res


def pers_np_rule(ctx):
    """persistent=False only for values that are functions of the constructor arguments."""
    p = ctx.p
    res = RuleResult("PERS-NP", "a non-persistent buffer holds only a deterministic function of the constructor arguments and is never written afterwards")
    dom, it, n = run_ctors(p)
    own_dom, _, _ = ctx.shared(("own", EVAL_KINDS), lambda: own_analyse(p, EVAL_KINDS))
    mutated = {(c, a.split(".")[-1]) for c, a, s, w in own_dom.state_writes}
    seen = set()
    for cls, attr, labels, node, how, pers, fi in dom.stores:
        if how != "register_buffer" or pers is not False:
            continue
        if (cls.name, attr) in seen:
            continue
        seen.add((cls.name, attr))
        if "RNG" in labels:
            continue  # reported by PERS-RNG
        if any((c.name, attr) in mutated for c in cls.repo_mro()):
            res.fail(Finding("PERS-NP", fi.module, fi.qualname, node, "non-persistent buffer '%s' is written on an evaluation path" % attr))
        else:
            res.ok("%s.%s: non-persistent buffer derived from constructor arguments only" % (cls.name, attr))
    res.ok("%d non-persistent buffers examined" % len(seen), nontrivial=False)
    return res


def pers_call_rule(ctx):
    """Modules must be registered (direct attribute, ModuleList, Sequential), not hidden in a
    Python list / tuple / dict."""
    p = ctx.p
    res = RuleResult("PERS-CALL", "sub-modules are registered: none is hidden in a plain Python container")
    n = 0
    for cls in p.all_classes():
        if not cls.is_nn_module():
            continue
        init = cls.methods.get("__init__")
        if init is None:
            continue
        # locals bound to module classes (block_constructor = MaskedResidualBlock)
        ctor_locals = set()
        for node in ast.walk(init.node):
            if isinstance(node, ast.Assign) and len(node.targets) == 1 and isinstance(node.targets[0], ast.Name) and isinstance(node.value, (ast.Name, ast.Attribute)):
                r = p.resolve_expr(cls.module, node.value)
                if isinstance(r, ClassInfo) and r.is_nn_module():
                    ctor_locals.add(node.targets[0].id)
        init._ctor_locals = ctor_locals
        # locals that are python lists receiving module constructions
        listvars = {}
        for node in ast.walk(init.node):
            if isinstance(node, ast.Call) and isinstance(node.func, ast.Attribute) and node.func.attr in ("append", "extend") and isinstance(node.func.value, ast.Name) and node.args:
                if _constructs_module(p, cls, node.args[0], init):
                    listvars[node.func.value.id] = node
            if isinstance(node, ast.AugAssign) and isinstance(node.target, ast.Name) and _constructs_module(p, cls, node.value, init):
                listvars[node.target.id] = node
        for name, ai in p.attrs(cls).items():
            if ai.cls is not cls or ai.kind != PLAIN or ai.value is None:
                continue
            v = ai.value
            hidden = False
            if isinstance(v, (ast.List, ast.Tuple, ast.ListComp, ast.Dict, ast.DictComp)) and _constructs_module(p, cls, v, init):
                hidden = True
            elif isinstance(v, ast.Name) and v.id in listvars:
                hidden = True
            n += 1
            if hidden:
                res.fail(Finding("PERS-CALL", cls.module, "%s.__init__" % cls.name, ai.node, "attribute '%s' keeps sub-modules in a plain Python container: their parameters and buffers are not registered and do not travel in the state dict" % name))
    res.ok("%d plain attributes of nn.Module classes hold no hidden sub-module" % n)
    # registered containers actually used
    regs = 0
    for cls in p.all_classes():
        if cls.is_nn_module():
            for name, ai in p.attrs(cls).items():
                if ai.cls is cls and ai.kind in (MODULELIST, MODULE, EXTMODULE):
                    regs += 1
    res.ok("%d registered sub-module attributes" % regs)
    return res


def _constructs_module(p, cls, node, init):
    for c in ast.walk(node):
        if isinstance(c, ast.Call):
            r = p.resolve_expr(cls.module, c.func)
            if isinstance(r, ClassInfo) and r.is_nn_module():
                return True
            if isinstance(r, tuple) and r[0] == "ext" and r[1].startswith("torch.nn.") and r[1].split(".")[-1][:1].isupper() and r[1] not in ("torch.nn.Parameter", "torch.nn.ModuleList", "torch.nn.Sequential", "torch.nn.ModuleDict"):
                return True
            if isinstance(c.func, ast.Name) and c.func.id in {a for a, _ in init.params()} and c.func.id.endswith(("_fn", "constructor", "_create_fn")):
                return True
            if isinstance(c.func, ast.Name) and c.func.id in getattr(init, "_ctor_locals", ()):
                return True
    return False



def pers_shape_rule(ctx):
    """PERS-SHAPE: a parameter / persistent buffer keeps the rank it was registered with.  An update
    that *rebinds* the attribute (`self.running_mean = torch.lerp(self.running_mean, mean, m)`) takes
    the shape of whatever the right-hand side broadcasts to; if that has another rank (a keepdim
    statistic, an unsqueezed operand) the state dict of a trained model no longer fits a freshly
    constructed one (load_state_dict: size mismatch) -- in-place updates cannot do that.  Decided with
    the axis-layout algebra on the right-hand side; a right-hand side it cannot follow is noted, not
    reported."""
    from ..axes import AxisEval, Mismatch, Unknown, show

    p = ctx.p
    res = RuleResult("PERS-SHAPE", "a rebinding update of a parameter / persistent buffer outside the constructor keeps the rank the attribute was registered with")
    n = 0
    for cls in p.all_classes():
        if not cls.is_nn_module() or not cls.module.name.startswith("nflows."):
            continue
        attrs = p.attrs(cls)
        stored = {}
        for name, ai in attrs.items():
            if ai.cls is not cls or ai.value is None:
                continue
            if ai.kind == "PARAM" or (ai.kind == "BUFFER" and ai.extra is True):
                # rank of the registered value: torch.zeros(features) / torch.ones(a, b) / torch.tensor(scalar)
                v = ai.value
                while isinstance(v, ast.Call) and norm_text(v.func).split(".")[-1] in ("Parameter", "clone", "float", "double"):
                    v = v.args[0] if v.args else (v.func.value if isinstance(v.func, ast.Attribute) else None)
                    if v is None:
                        break
                rank = None
                if isinstance(v, ast.BinOp):
                    for side in (v.left, v.right):
                        if isinstance(side, ast.Call) and norm_text(side.func) in ("torch.zeros", "torch.ones", "torch.empty", "torch.randn", "torch.rand"):
                            v = side
                if isinstance(v, ast.Call) and norm_text(v.func) in ("torch.zeros", "torch.ones", "torch.empty", "torch.randn", "torch.rand", "torch.full"):
                    sizes = [a for a in v.args if not isinstance(a, ast.Starred)]
                    if sizes and isinstance(sizes[0], (ast.Tuple, ast.List)):
                        sizes = list(sizes[0].elts)
                    if not any(isinstance(a, ast.Starred) for a in v.args):
                        rank = len(sizes) if norm_text(v.func) != "torch.full" else None
                elif isinstance(v, ast.Call) and norm_text(v.func) in ("torch.tensor", "torch.as_tensor") and v.args and isinstance(v.args[0], ast.Constant):
                    rank = 0
                if rank is not None:
                    stored[name] = rank
        if not stored:
            continue
        for mname, m in cls.methods.items():
            if mname == "__init__":
                continue
            params = [a for a, _ in m.params()]
            for st in ast.walk(m.node):
                if not isinstance(st, ast.Assign):
                    continue
                for t in st.targets:
                    if not (isinstance(t, ast.Attribute) and isinstance(t.value, ast.Name) and t.value.id == "self" and t.attr in stored):
                        continue
                    n += 1
                    rank = stored[t.attr]
                    env = {}
                    if params:
                        env[params[0]] = (((("B", "B", False),)), ((("D", "D", False),)))
                    ev = AxisEval(env)

                    # module state by its registered rank; locals through their (single) definitions
                    defs = {}
                    for a in ast.walk(m.node):
                        if isinstance(a, ast.Assign) and a.lineno < st.lineno:
                            for tt in a.targets:
                                if isinstance(tt, ast.Name):
                                    defs[tt.id] = a.value
                                elif isinstance(tt, (ast.Tuple, ast.List)) and all(isinstance(x, ast.Name) for x in tt.elts):
                                    for i, x in enumerate(tt.elts):
                                        defs[x.id] = ("component", a.value, i, len(tt.elts))

                    def layout_of(e, depth=0):
                        if depth > 8:
                            raise Unknown("depth")
                        if isinstance(e, ast.Attribute) and isinstance(e.value, ast.Name) and e.value.id == "self" and e.attr in stored:
                            return tuple(((("s%d" % i, "S%d" % i, False),)) for i in range(stored[e.attr]))
                        if isinstance(e, ast.Name) and e.id in defs:
                            d = defs[e.id]
                            if isinstance(d, tuple) and d[0] == "component":
                                src = d[1]
                                if isinstance(src, ast.Tuple) and len(src.elts) == d[3]:
                                    return layout_of(src.elts[d[2]], depth + 1)
                                if isinstance(src, ast.Call) and norm_text(src.func) in ("torch.var_mean", "torch.std_mean"):
                                    red = ast.Call(func=ast.Attribute(value=src.args[0], attr="mean", ctx=ast.Load()), args=list(src.args[1:]), keywords=list(src.keywords))
                                    return layout_of(red, depth + 1)
                                raise Unknown("component")
                            return layout_of(d, depth + 1)
                        if isinstance(e, ast.Call) and norm_text(e.func) in ("torch.lerp", "torch.add", "torch.sub", "torch.mul", "torch.where", "torch.addcmul"):
                            outs = []
                            for a in e.args:
                                try:
                                    outs.append(layout_of(a, depth + 1))
                                except Unknown:
                                    pass
                            if not outs:
                                raise Unknown("operands")
                            return max(outs, key=len)
                        if isinstance(e, ast.BinOp):
                            outs = []
                            for a in (e.left, e.right):
                                try:
                                    outs.append(layout_of(a, depth + 1))
                                except Unknown:
                                    pass
                            if not outs:
                                raise Unknown("operands")
                            return max(outs, key=len)
                        if isinstance(e, ast.Call) and isinstance(e.func, ast.Attribute) and e.func.attr in ("detach", "clone", "float", "double", "to", "contiguous") and not (isinstance(e.func.value, ast.Name) and e.func.value.id == "torch"):
                            return layout_of(e.func.value, depth + 1)
                        if isinstance(e, ast.Call) and isinstance(e.func, ast.Attribute) and e.func.attr in ("mean", "var", "std", "sum") and not (isinstance(e.func.value, ast.Name) and e.func.value.id == "torch"):
                            base = layout_of(e.func.value, depth + 1)
                            sub = AxisEval({"__x__": base})
                            call2 = ast.Call(func=ast.Attribute(value=ast.Name(id="__x__", ctx=ast.Load()), attr=e.func.attr, ctx=ast.Load()), args=e.args, keywords=e.keywords)
                            return sub.ev(call2)
                        return ev.ev(e)

                    try:
                        lay = layout_of(st.value)
                    except (Unknown, Mismatch) as u:
                        res.ok("%s.%s rebinds `%s`; its right-hand side was not followed (%s)" % (cls.name, mname, t.attr, str(u)[:40]), nontrivial=False)
                        continue
                    if len(lay) != rank:
                        res.fail(Finding("PERS-SHAPE", m.module, m.qualname, st, "`self.%s` is registered with %d ax%s but this update rebinds it to a value with %d (%s): after the first such update the state dict of this model has another shape than a freshly constructed one expects, and load_state_dict fails with a size mismatch (an in-place update keeps the registered shape)" % (t.attr, rank, "is" if rank == 1 else "es", len(lay), show(lay))))
                    else:
                        res.ok("%s.%s rebinds `%s` with a value of its registered rank %d" % (cls.name, mname, t.attr, rank))
    if n == 0:
        res.ok("no parameter / persistent buffer is rebound outside a constructor (updates are in place)", nontrivial=False)
    return res


def pers_stale_rule(ctx):
    """PERS-STALE = LD-STATE (shared with C01 / C02 / C03): a copy of stored state kept in a plain
    attribute or a non-persistent buffer (a constructor-time or eval-time derived value, a memo) is
    refreshed or cleared wherever that state is replaced -- load_state_dict included; otherwise a
    reloaded model keeps computing with what it was built with."""
    from .ld_rules import ld_state_rule

    r = ld_state_rule(ctx)
    r.rule = "PERS-STALE"
    for f in r.findings:
        f.rule = "PERS-STALE"
    return r


def pers_hist_rule(ctx):
    """PERS-HIST.  Whatever a module learns from the data it is shown -- a running statistic, a bound widened
    to the inputs seen in training, a counter -- and later reads in forward / inverse / sampling determines
    the function and has to travel in the state dict.  Per module class: a method other than the constructor
    that assigns `self.a = E` / `self.a op= E` with E computed from the method's own arguments (through
    locals) makes `a` data-dependent state; if `a` is read by another method and is neither a parameter nor
    a persistent buffer (a plain attribute, a non-persistent buffer), a freshly built model that loads the
    state dict starts from the constructor's value instead."""
    from .ld_rules import _roots_of

    p = ctx.p
    res = RuleResult("PERS-HIST", "state computed from the data seen (assigned from a method's arguments outside the constructor) and read by evaluation is a parameter or a persistent buffer")
    n = 0
    for cls in p.all_classes():
        if not cls.is_nn_module():
            continue
        table = p.attrs(cls)
        # methods on the data path: the entry points that are shown data, and what they call on self
        allm = {}
        for c in reversed(cls.repo_mro()):
            allm.update(c.methods)
        calls = {nm: {x.func.attr for x in ast.walk(fi.node) if isinstance(x, ast.Call) and isinstance(x.func, ast.Attribute) and isinstance(x.func.value, ast.Name) and x.func.value.id == "self" and x.func.attr in allm} for nm, fi in allm.items()}
        on_path, todo = set(), [e for e in ("forward", "inverse", "log_prob", "_log_prob", "sample", "_sample", "sample_and_log_prob", "inverse_transform", "transform_to_noise", "__call__") if e in allm]
        while todo:
            x = todo.pop()
            if x in on_path:
                continue
            on_path.add(x)
            todo.extend(calls.get(x, ()))
        for mname, m in cls.methods.items():
            if mname in ("__init__", "_load_from_state_dict", "load_state_dict", "_apply", "__setstate__") or mname not in on_path:
                continue
            params = {a for a, _ in m.params()} - {"self"}
            for st in ast.walk(m.node):
                tgts = []
                if isinstance(st, ast.Assign):
                    tgts = [(t, st.value) for t in st.targets]
                elif isinstance(st, ast.AugAssign):
                    tgts = [(st.target, st.value)]
                for t, v in tgts:
                    if not (isinstance(t, ast.Attribute) and isinstance(t.value, ast.Name) and t.value.id == "self"):
                        continue
                    n += 1
                    roots = _roots_of(v, m.node)
                    if not (roots & params):
                        continue
                    ai = table.get(t.attr)
                    kind = ai.kind if ai is not None else "PLAIN"
                    if kind == "PARAM" or (kind == "BUFFER" and ai.extra is True):
                        res.ok("%s.%s: data-dependent state %s is a %s" % (cls.name, mname, t.attr, "parameter" if kind == "PARAM" else "persistent buffer"))
                        continue
                    readers = [m2.qualname for n2, m2 in cls.methods.items() if m2 is not m and any(isinstance(x, ast.Attribute) and x.attr == t.attr and isinstance(x.value, ast.Name) and x.value.id == "self" and isinstance(x.ctx, ast.Load) for x in ast.walk(m2.node))]
                    readers += [m.qualname] if any(isinstance(x, ast.Attribute) and x.attr == t.attr and isinstance(x.value, ast.Name) and x.value.id == "self" and isinstance(x.ctx, ast.Load) for x in ast.walk(m.node)) and not readers and False else []
                    if not readers:
                        continue
                    res.fail(Finding("PERS-HIST", m.module, m.qualname, st, "`self.%s` is computed from what %s is shown (%s) and read by %s, but it is %s: it is not in the state dict, so a freshly built model that loads a trained state dict starts from the constructor's value" % (t.attr, m.qualname, ", ".join(sorted(roots & params)), ", ".join(sorted(set(readers))[:2]), "a non-persistent buffer" if kind == "BUFFER" else "a plain attribute"), construct="data-dependent state %s.%s" % (cls.name, t.attr)))
    if n < getattr(ctx, "pers_hist_floor", 0):
        raise AnalysisIncomplete("PERS-HIST: %d attribute assignments outside constructors examined (< 1: Linear.use_cache sets self.using_cache on the pinned tree)" % n)
    res.ok("%d attribute assignments outside constructors examined" % n, nontrivial=False)
    return res


def pers_load_rule(ctx):
    """PERS-LOAD.  A state-dict load hook of any module class (an override of _load_from_state_dict /
    load_state_dict / __setstate__, a registered pre- or post-hook) sits between the saved values and the model.
    It may fill an entry that an old checkpoint lacks -- guarded by the absence of *that same key*, which for a
    sub-module is `prefix + name` -- but it never replaces, removes or rewrites a saved parameter / persistent
    buffer, always hands the load on to torch, and does not write the restored attributes afterwards.  A guard
    that tests the bare name is never true for a nested module: the saved value is then overwritten on every
    load (same analysis as NORM-LOAD of C14, over every class)."""
    from .c14 import _load_hook_findings, _travels

    p = ctx.p
    res = RuleResult("PERS-LOAD", "no state-dict load hook of any module class replaces a saved parameter / persistent-buffer entry (other than filling the very key it found absent), skips the delegation to torch, or writes the restored attributes")
    total = 0
    for cls in p.all_classes():
        if not cls.is_nn_module():
            continue
        names = sorted(k for k, ai in p.attrs(cls).items() if _travels(ai))
        if not names:
            continue
        before = len(res.findings)
        hooks = _load_hook_findings(p, cls, names, res, rule="PERS-LOAD")
        total += len(hooks)
        if hooks and len(res.findings) == before:
            res.ok("%s: %d load hook(s) keep the saved %s" % (cls.name, len(hooks), ", ".join(names[:4])))
    # one hook reaches several classes through inheritance: report each construct once
    seen, uniq = set(), []
    for f in res.findings:
        k = (f.file, f.qualname, getattr(f, "line", None), f.message.split(":")[0][:40])
        k = (f.file, f.qualname, getattr(f, "line", None))
        if k not in seen:
            seen.add(k)
            uniq.append(f)
    res.findings[:] = uniq
    if total < 1:
        raise AnalysisIncomplete("PERS-LOAD: no state-dict load hook found (Linear._load_from_state_dict is one on the pinned tree)")
    res.ok("%d (class, load hook) pairs analysed" % total, nontrivial=False)
    return res


def pers_closure_rule(ctx):
    """PERS-CLOSURE.  A module handed to a constructor travels in the state dict only if it is *registered*: stored
    as an attribute (or in an nn container).  Captured in a lambda / nested function / functools.partial that is
    stored instead, it is invisible to state_dict(), parameters(), .to() and train() -- a strict load into a
    freshly built model succeeds and the fresh model keeps its own random weights.  Decided per module class:
    a constructor parameter that the constructor treats as a module (an `isinstance(p, nn.Module)` check, or a
    sibling path that stores it as an attribute) is not referenced inside a lambda / def / partial that is
    assigned to an attribute."""
    p = ctx.p
    res = RuleResult("PERS-CLOSURE", "no constructor stores a closure (lambda / nested def / partial) over a module-valued parameter in place of the module itself")
    n = 0
    for cls in p.all_classes():
        if not cls.is_nn_module():
            continue
        init = cls.methods.get("__init__")
        if init is None:
            continue
        params = {a for a, _ in init.params()}
        moduleish = set()
        for x in ast.walk(init.node):
            if isinstance(x, ast.Call) and isinstance(x.func, ast.Name) and x.func.id == "isinstance" and len(x.args) == 2 and isinstance(x.args[0], ast.Name) and x.args[0].id in params and "Module" in norm_text(x.args[1]):
                moduleish.add(x.args[0].id)
        # ... or hands it to a helper of the class that makes that check (`self._as_embedding_net(embedding_net)`)
        for x in ast.walk(init.node):
            if isinstance(x, ast.Call) and isinstance(x.func, ast.Attribute) and isinstance(x.func.value, ast.Name) and x.func.value.id in ("self", "cls", cls.name):
                h = cls.lookup_method(x.func.attr)
                if h is None:
                    continue
                hp = [a for a, _ in h.params()]
                for i, a in enumerate(x.args):
                    if isinstance(a, ast.Name) and a.id in params and i < len(hp):
                        if any(isinstance(y, ast.Call) and isinstance(y.func, ast.Name) and y.func.id == "isinstance" and len(y.args) == 2 and isinstance(y.args[0], ast.Name) and y.args[0].id == hp[i] and "Module" in norm_text(y.args[1]) for y in ast.walk(h.node)):
                            moduleish.add(a.id)
        if not moduleish:
            continue
        n += 1
        for a in ast.walk(init.node):
            if not (isinstance(a, ast.Assign) and any(isinstance(t, ast.Attribute) and isinstance(t.value, ast.Name) and t.value.id == "self" for t in a.targets)):
                continue
            closures = [c for c in ast.walk(a.value) if isinstance(c, ast.Lambda)] + [c for c in ast.walk(a.value) if isinstance(c, ast.Call) and norm_text(c.func) in ("functools.partial", "partial")]
            if isinstance(a.value, ast.Name):
                closures += [d for d in ast.walk(init.node) if isinstance(d, ast.FunctionDef) and d is not init.node and d.name == a.value.id]
            for c in closures:
                captured = sorted({q.id for q in ast.walk(c) if isinstance(q, ast.Name) and q.id in moduleish} - ({x.arg for x in c.args.args} if isinstance(c, (ast.Lambda, ast.FunctionDef)) else set()))
                if captured:
                    res.fail(Finding("PERS-CLOSURE", init.module, init.qualname, a, "%s stores a closure over the module-valued argument `%s` (`%s`) instead of the module: it is not a registered sub-module, so its parameters are missing from state_dict() / parameters() / .to() / train(); loading the state dict of a trained model into a freshly built one leaves the fresh model's own random `%s` in place, silently" % (init.qualname, captured[0], norm_text(a)[:70], captured[0]), construct="closure over %s in %s" % (captured[0], init.qualname)))
    res.ok("%d constructors with module-valued parameters: each is stored as an attribute, none only inside a closure" % n, nontrivial=False)
    if n < 1:
        raise AnalysisIncomplete("PERS-CLOSURE: no constructor with an isinstance(.., nn.Module) check (Flow.__init__ has one on the pinned tree)")
    return res


register(
    "C15",
    [pers_rng_rule, pers_mut_rule, pers_np_rule, pers_call_rule, pers_stale_rule, pers_shape_rule, pers_hist_rule, pers_load_rule, pers_closure_rule],
    "Dataflow over constructors and evaluation paths. PERS-RNG: every nn.Module constructor is abstractly interpreted with a "
    "taint domain in which random sources (torch.rand*, randperm, randint, multinomial, init.uniform_/normal_..., np.random, and "
    "repository helpers that return them, found interprocedurally) label their results RNG; every store of an RNG-tainted value "
    "on the model (attribute assignment, register_buffer with its persistent flag, nn.Parameter) is classified through the "
    "attribute-kind table; a plain attribute or non-persistent buffer holding such a value and read on an evaluation path (the "
    "read set is computed by interpreting all evaluation entry points) is the violation. PERS-MUT: attributes the ownership "
    "analysis of C13 sees written on evaluation paths must be parameters or persistent buffers. PERS-NP: persistent=False only "
    "for deterministic functions of constructor arguments. PERS-CALL: no sub-module hidden in a plain Python container. "
    "Bit-identity of the reloaded function then follows from determinism of torch kernels, which is assumed.",
    [T_NN, T_OPS, "constructor arguments of the reloaded model equal those of the saved one (the property's premise)"],
)
