"""C11 LIN-WORD / LIN-LOGDET on the matrix-word algebra of nfstatic.linword.

For every concrete parameterisation (own accessors, i.e. not merely inherited):

  W := word(weight())
  LIN-WORD    weight_inverse()                       ==  W^-1
              forward_no_cache(X)[0]                 ==  X W^T + b
              inverse_no_cache(X)[0]                 ==  (X - b) W^-T
              weight_and_logabsdet()[0]              ==  W
              weight_inverse_and_logabsdet()[0]      ==  W^-1
              every triangular solve uses the flags of the factor it is given
              HouseholderSequence.matrix()           ==  Q^-1   (forward(x) = x Q = F.linear(x, matrix()))
  LIN-LOGDET  logdet(W) := sum over the factors of W of sum(log diag)    (unit-triangular and
              orthogonal factors contribute 0; a general square parameter contributes its log|det|)
              logabsdet(), both combined accessors' second component, forward_no_cache(X)[1]
              are  + logdet(W);  inverse_no_cache(X)[1] is  - logdet(W)

Equality is equality of normal forms, so any algebraically equal spelling passes; an operation
outside the table leaves the accessor undecided (exit 2), never flagged.
"""

import ast
from fractions import Fraction

from ..astutil import attr_chain, const_number, product_factors, signed_terms
from ..linword import Atoms, LinEval, Obligation, Undecided, Val, LU_FUNCS, canon_diag
from ..model import AnalysisIncomplete, norm_text
from ..report import Finding, RuleResult
from ..symexp import brief, clone, is_component, paths_of

BROADCAST = {"new_ones", "ones_like", "ones", "expand", "expand_as"}


def _last(c):
    f = c.func
    return f.attr if isinstance(f, ast.Attribute) else (f.id if isinstance(f, ast.Name) else "")


def _recv_or_arg(c):
    """the tensor a torch function / method is applied to"""
    f = c.func
    if isinstance(f, ast.Attribute) and not (isinstance(f.value, ast.Name) and f.value.id in ("torch", "F", "torchutils", "np")) and norm_text(f.value) not in ("torch.linalg",):
        return f.value, list(c.args)
    return (c.args[0] if c.args else None), list(c.args[1:])


class LogdetNF:
    """signed multiset of log-det keys of a scalar / per-batch log-det expression"""

    def __init__(self, p, cls, ev):
        self.p = p
        self.cls = cls
        self.ev = ev

    def of_word(self, val, node=None):
        w = val.single_word()
        if w is None:
            raise Undecided("log|det| of a sum of matrices")
        out = []
        for name, inv, tr in w:
            pr = self.ev.atoms.props(name)
            s = -1 if inv else 1
            k = pr.get("kind")
            if k == "orth":
                continue
            if k == "tri":
                if pr.get("unit"):
                    continue
                if pr.get("diag") is None:
                    raise Obligation(node, "the triangular factor %s has no diagonal stored: it is singular" % name)
                out.append((s, ("S", canon_diag(self.p, self.cls, pr["diag"]))))
            elif k == "diag":
                out.append((s, ("S", canon_diag(self.p, self.cls, pr["diag"]))))
            elif k == "general":
                out.append((s, ("LD", name)))
            else:
                raise Undecided("log|det| of %s" % name)
        return _merge(out)

    def of_expr(self, e, sign=1):
        out = []
        self._scalar(e, sign, out, 0)
        return _merge(out)

    def _scalar(self, e, sign, out, depth):
        if depth > 30:
            raise Undecided("log-det expression too deep")
        for s, t in signed_terms(e, 1):
            s = s * sign
            if isinstance(t, ast.BinOp) and isinstance(t.op, ast.Div) and const_number(t.right) not in (None, 0):
                self._scalar(t.left, s * Fraction(1) / Fraction(const_number(t.right)).limit_denominator(10 ** 6), out, depth + 1)
                continue
            ps, fac = product_factors(t)
            s2 = s * ps
            core = [f for f in fac if not (isinstance(f, ast.Call) and _last(f) in BROADCAST)]
            consts = [f for f in core if const_number(f) is not None]
            if consts and len(core) - len(consts) == 1:
                for f in consts:
                    s2 = s2 * Fraction(const_number(f)).limit_denominator(10 ** 6)
                core = [f for f in core if const_number(f) is None]
            if len(core) != 1:
                raise Undecided("log-det term is a product: %s" % brief(t, 60))
            c = core[0]
            if isinstance(c, (ast.BinOp, ast.UnaryOp)) and (isinstance(c, ast.UnaryOp) or isinstance(c.op, (ast.Add, ast.Sub))):
                self._scalar(c, s2, out, depth + 1)
                continue
            if isinstance(c, ast.Subscript) and isinstance(c.value, ast.Call) and isinstance(const_number(c.slice), int):
                from ..symexp import component

                c = component(c.value, const_number(c.slice))
            if is_component(c):
                call, i = c.args[0], c.args[1].value
                f = norm_text(call.func) if isinstance(call, ast.Call) else ""
                if f in ("torch.slogdet", "torch.linalg.slogdet") and i == 1:
                    for sg, k in self.of_word(self.ev.mat(call.args[0]), c):
                        out.append((s2 * sg, k))
                    continue
                ch = attr_chain(call.func) if isinstance(call, ast.Call) else None
                if ch and ch.startswith("self.") and ch.count(".") == 1 and not call.args:
                    self._method(ch.split(".", 1)[1], s2, out, depth, comp=i)
                    continue
                raise Undecided("log-det from %s" % brief(c, 60))
            if isinstance(c, ast.Attribute) and c.attr == "logabsdet" and isinstance(c.value, ast.Call) and norm_text(c.value.func) in ("torch.slogdet", "torch.linalg.slogdet"):
                for sg, k in self.of_word(self.ev.mat(c.value.args[0]), c):
                    out.append((s2 * sg, k))
                continue
            if isinstance(c, ast.Call):
                f = norm_text(c.func)
                last = _last(c)
                ch = attr_chain(c.func)
                if ch and ch.startswith("self.") and ch.count(".") == 1 and not c.args and self.cls.lookup_method(ch.split(".", 1)[1]) is not None:
                    self._method(ch.split(".", 1)[1], s2, out, depth)
                    continue
                if f in ("torchutils.logabsdet", "nflows.utils.torchutils.logabsdet", "logabsdet") and len(c.args) == 1:
                    for sg, k in self.of_word(self.ev.mat(c.args[0]), c):
                        out.append((s2 * sg, k))
                    continue
                if last == "log":
                    # log(prod(d)) = sum(log(d)) algebraically (its float32 range is C19's NUM-LOGSPACE)
                    inner, _ = _recv_or_arg(c)
                    if isinstance(inner, ast.Call) and _last(inner) == "prod":
                        vec, rest = _recv_or_arg(inner)
                        dims = [const_number(a) for a in rest] + [const_number(k.value) for k in inner.keywords if k.arg in ("dim", "axis")]
                        if vec is not None and all(d in (0, -1) for d in dims):
                            out.append((s2, ("S", canon_diag(self.p, self.cls, vec))))
                            continue
                    raise Undecided("log-det term %s" % brief(c, 60))
                if last == "sum":
                    inner, rest = _recv_or_arg(c)
                    dims = [const_number(a) for a in rest] + [const_number(k.value) for k in c.keywords if k.arg in ("dim", "axis")]
                    if inner is None or any(d not in (0, -1) for d in dims):
                        raise Undecided("reduction %s" % brief(c, 60))
                    self._vector(inner, s2, out, depth + 1)
                    continue
                if last in ("reshape", "view", "squeeze", "float", "double", "contiguous", "to"):
                    inner, _ = _recv_or_arg(c)
                    if inner is not None:
                        self._scalar(inner, s2, out, depth + 1)
                        continue
            if isinstance(c, ast.Attribute):
                # a scalar property / attribute holding a log-det: inline properties
                ch = attr_chain(c)
                ai = self.p.attrs(self.cls).get(ch.split(".", 1)[1]) if ch and ch.startswith("self.") and ch.count(".") == 1 else None
                if ai is not None and ai.kind == "PROPERTY" and ai.func is not None:
                    rets = [n for n in ast.walk(ai.func.node) if isinstance(n, ast.Return) and n.value is not None]
                    if len(rets) == 1:
                        self._scalar(rets[0].value, s2, out, depth + 1)
                        continue
            raise Undecided("log-det term %s" % brief(c, 60))

    def _method(self, name, sign, out, depth, comp=None):
        fi = self.cls.lookup_method(name)
        rets = [pp for pp in paths_of(fi.node) if pp.kind == "return"]
        if len(rets) != 1:
            raise Undecided("%s has %d returning paths" % (name, len(rets)))
        r = rets[0].ret
        if comp is not None:
            if not (isinstance(r, ast.Tuple) and len(r.elts) > comp):
                raise Undecided("%s does not return a tuple" % name)
            r = r.elts[comp]
        self._scalar(r, sign, out, depth + 1)

    def _vector(self, v, sign, out, depth):
        """v is a vector that is summed: every signed term must be log(d) (key S:d) or a raw
        vector y (key S:exp(y))."""
        for s, t in signed_terms(v, sign):
            ps, fac = product_factors(t)
            if len(fac) != 1:
                raise Undecided("summed vector term %s" % brief(t, 60))
            c = fac[0]
            s2 = s * ps
            if isinstance(c, ast.Call) and _last(c) == "log":
                inner, _ = _recv_or_arg(c)
                # log|diag(LU(M))| = log|det M|
                a = inner
                if isinstance(a, ast.Call) and _last(a) == "abs":
                    a, _ = _recv_or_arg(a)
                    if isinstance(a, ast.Call) and _last(a) in ("diag", "diagonal"):
                        lu, _ = _recv_or_arg(a)
                        if is_component(lu) and lu.args[1].value == 0 and isinstance(lu.args[0], ast.Call) and norm_text(lu.args[0].func) in LU_FUNCS:
                            for sg, k in self.of_word(self.ev.mat(lu.args[0].args[0]), c):
                                out.append((s2 * sg, k))
                            continue
                    raise Undecided("log|.| of %s" % brief(a, 50))
                out.append((s2, ("S", canon_diag(self.p, self.cls, inner))))
                continue
            if isinstance(c, ast.Attribute):
                ch = attr_chain(c)
                ai = self.p.attrs(self.cls).get(ch.split(".", 1)[1]) if ch and ch.startswith("self.") and ch.count(".") == 1 else None
                if ai is not None and ai.kind == "PROPERTY" and ai.func is not None:
                    rets = [n for n in ast.walk(ai.func.node) if isinstance(n, ast.Return) and n.value is not None]
                    if len(rets) == 1:
                        self._vector(rets[0].value, s2, out, depth + 1)
                        continue
            if isinstance(c, (ast.Attribute, ast.Call, ast.Name, ast.Subscript)):
                # a raw summed vector y is sum(log(exp(y)))
                if any(isinstance(n, ast.Name) and n.id not in ("self", "torch", "F", "np", "torchutils") for n in ast.walk(c)):
                    raise Undecided("summed vector term %s" % brief(c, 60))
                out.append((s2, ("S", "torch.exp(%s)" % canon_diag(self.p, self.cls, c))))
                continue
            raise Undecided("summed vector term %s" % brief(c, 60))


def _merge(pairs):
    acc = {}
    for c, k in pairs:
        acc[k] = acc.get(k, 0) + c
    return sorted((c, k) for k, c in acc.items() if c != 0)


def _coef(c):
    c = Fraction(c)
    a = abs(c)
    return ("+" if c > 0 else "-") + ("" if a == 1 else "%s*" % a)


def _show_keys(keys):
    return " ".join(_coef(s) + ("sum(log %s)" % k[1] if k[0] == "S" else "log|det %s|" % k[1]) for s, k in keys) or "0"


def _single_return(fi):
    rets = [pp for pp in paths_of(fi.node) if pp.kind == "return"]
    if len(rets) != 1:
        raise Undecided("%s has %d returning paths" % (fi.qualname, len(rets)))
    return rets[0]


def combined_accessor_verdict(p, cls, name):
    """('ok' | 'fail' | 'undecided', message) for weight_and_logabsdet / weight_inverse_and_logabsdet
    of `cls`: first component W (resp. W^-1), second component + log|det W| (used by C10 CACHE-MAP)."""
    ev = LinEval(p, cls)
    nf = LogdetNF(p, cls, ev)
    try:
        W = ev.method_value("weight")
        if W.single_word() is None:
            raise Undecided("weight() is not a product of factors")
        want_m = W if name == "weight_and_logabsdet" else W.inv()
        got_m = ev.method_value(name, 0)
        want_l = nf.of_word(W)
        fi = cls.lookup_method(name)
        r = _single_return(fi).ret
        if not (isinstance(r, ast.Tuple) and len(r.elts) == 2):
            return "fail", "%s must return a pair (matrix, logabsdet)" % name
        got_l = nf.of_expr(r.elts[1])
    except Undecided as ex:
        # the two components the other way round?
        try:
            fi = cls.lookup_method(name)
            r = _single_return(fi).ret
            if isinstance(r, ast.Tuple) and len(r.elts) == 2:
                m1 = ev.mat(r.elts[1])
                l0 = nf.of_expr(r.elts[0])
                if m1.single_word() is not None and l0:
                    return "fail", "%s returns (logabsdet, matrix); callers unpack (matrix, logabsdet)" % name
        except (Undecided, Obligation):
            pass
        return "undecided", str(ex)
    except Obligation as ob:
        return "fail", ob.msg
    if got_m != want_m:
        return "fail", "%s returns the matrix `%s`, expected `%s`" % (name, got_m.show(), want_m.show())
    if got_l != want_l:
        return "fail", "%s returns the log-det `%s`, expected `%s`" % (name, _show_keys(got_l), _show_keys(want_l))
    return "ok", "%s.%s returns (%s, %s)" % (cls.name, name, got_m.show(), _show_keys(got_l))


def check_linear_classes(p, base, res, res_ld):
    """Decide every subclass of `base` that defines accessors of its own; returns their number."""
    n_cls = 0
    for cls in sorted(p.subclasses_of(base), key=lambda c: c.name):
        if cls is base:
            continue
        own = [a for a in ("weight", "weight_inverse", "logabsdet", "forward_no_cache", "inverse_no_cache", "weight_and_logabsdet", "weight_inverse_and_logabsdet") if a in cls.methods]
        if not own:
            # inherits every accessor (OneByOneConvolution): decided with its parent
            par = [b for b in cls.repo_mro()[1:] if b is not base and b.is_subclass_of(base)]
            if par:
                res.ok("%s inherits all accessors of %s" % (cls.name, par[0].name))
                continue
        n_cls += 1
        ev = LinEval(p, cls)
        nf = LogdetNF(p, cls, ev)
        wfi = cls.lookup_method("weight")
        if wfi is None:
            continue  # LIN-COMPLETE
        try:
            W = ev.method_value("weight")
            if W.single_word() is None or W.mentions("X") or W.mentions("b"):
                raise Undecided("weight() is not a product of factors: %s" % W.show())
        except Undecided as ex:
            res.undecide("%s.weight" % cls.name, str(ex))
            continue
        X = Val.atom("X", ev.atoms)
        b = Val.atom("b", ev.atoms)
        Winv = W.inv()
        want = {
            ("weight_inverse", None): Winv,
            ("forward_no_cache", 0): X.mul(W.t()).add(b),
            ("inverse_no_cache", 0): X.add(b, -1).mul(Winv.t()),
            ("weight_and_logabsdet", 0): W,
            ("weight_inverse_and_logabsdet", 0): Winv,
        }
        for (mname, comp), expect in want.items():
            fi = cls.lookup_method(mname)
            if fi is None:
                continue
            n_obl = len(ev.obligations)
            try:
                got = ev.method_value(mname, comp)
            except Undecided as ex:
                res.undecide("%s.%s" % (cls.name, mname), str(ex))
                continue
            for node, msg in ev.obligations[n_obl:]:
                res.fail(Finding("LIN-WORD", fi.module, fi.qualname, _single_return(fi).ret_node, msg, construct="triangular solve flags in %s.%s" % (cls.name, mname)))
            if got == expect:
                res.ok("%s.%s = %s" % (cls.name, mname, got.show()))
            else:
                res.fail(Finding("LIN-WORD", fi.module, fi.qualname, _single_return(fi).ret_node, "%s.%s computes `%s` but weight() = `%s` requires `%s`" % (cls.name, mname, got.show(), W.show(), expect.show()), construct="matrix of %s.%s" % (cls.name, mname)))
        # log-dets
        try:
            expect_ld = nf.of_word(W)
        except Undecided as ex:
            res_ld.undecide("%s log|det W|" % cls.name, str(ex))
            continue
        except Obligation as ob:
            res_ld.fail(Finding("LIN-LOGDET", wfi.module, wfi.qualname, wfi.node, ob.msg, construct="factors of %s.weight" % cls.name))
            continue
        neg = _merge((-s, k) for s, k in expect_ld)
        for mname, comp, wantk in (("logabsdet", None, expect_ld), ("weight_and_logabsdet", 1, expect_ld), ("weight_inverse_and_logabsdet", 1, expect_ld), ("forward_no_cache", 1, expect_ld), ("inverse_no_cache", 1, neg)):
            fi = cls.lookup_method(mname)
            if fi is None:
                continue
            try:
                path = _single_return(fi)
                r = path.ret
                if comp is not None:
                    if not (isinstance(r, ast.Tuple) and len(r.elts) > comp):
                        raise Undecided("%s does not return a tuple" % mname)
                    r = r.elts[comp]
                got = nf.of_expr(r)
            except Undecided as ex:
                res_ld.undecide("%s.%s" % (cls.name, mname), str(ex))
                continue
            except Obligation as ob:
                res_ld.fail(Finding("LIN-LOGDET", fi.module, fi.qualname, fi.node, ob.msg, construct="log-det of %s.%s" % (cls.name, mname)))
                continue
            if got == wantk:
                res_ld.ok("%s.%s: %s" % (cls.name, mname, _show_keys(got)))
            else:
                res_ld.fail(Finding("LIN-LOGDET", fi.module, fi.qualname, path.ret_node, "%s.%s carries `%s` but the factors of weight() (`%s`) give `%s`" % (cls.name, mname, _show_keys(got), W.show(), _show_keys(wantk)), construct="log-det of %s.%s" % (cls.name, mname)))
    return n_cls


def lin_word_rule(ctx):
    p = ctx.p
    base = p.find_class("Linear", "nflows.transforms.linear")
    res = RuleResult("LIN-WORD", "matrix-word algebra: weight_inverse() = W^-1, forward_no_cache = X W^T + b, inverse_no_cache = (X - b) W^-T, combined accessors return W / W^-1, triangular solves use the flags of their factor; Householder matrix() = Q^-1")
    res_ld = RuleResult("LIN-LOGDET", "logabsdet(), the combined accessors and forward_no_cache carry + sum over W's factors of sum(log diag); inverse_no_cache carries its negation")
    n_cls = check_linear_classes(p, base, res, res_ld)
    if n_cls < 4:
        raise AnalysisIncomplete("LIN-WORD: %d parameterisations with own accessors (< 4)" % n_cls)
    # Householder: matrix() is the matrix M with forward(x) = F.linear(x, M) = x M^T
    hs = p.find_class("HouseholderSequence", "nflows.transforms.orthogonal")
    mfi = hs.methods.get("matrix")
    if mfi is None:
        res.undecide("HouseholderSequence.matrix", "missing")
    else:
        try:
            ev = _HouseholderEval(p, hs)
            got = ev.method_value("matrix")
            q = Val.atom("Q[self]", ev.atoms)
            if got == q.inv():
                res.ok("HouseholderSequence.matrix() = Q^-1 = Q^T where forward(x) = x Q")
            else:
                res.fail(Finding("LIN-WORD", mfi.module, mfi.qualname, mfi.node, "matrix() computes `%s`; forward(x) = x Q equals F.linear(x, matrix()) only for matrix() = Q^-1 (the transpose)" % got.show(), construct="HouseholderSequence.matrix"))
        except Undecided as ex:
            res.undecide("HouseholderSequence.matrix", str(ex))
    return [res, res_ld]


class _HouseholderEval(LinEval):
    """inside HouseholderSequence: self.forward(x) / self(x) = x Q, self.inverse(x) = x Q^-1"""

    def __init__(self, p, cls):
        LinEval.__init__(self, p, cls)
        self.atoms.add("Q[self]", kind="orth", orth=True, unit=True)

    def _component(self, call, i):
        ch = attr_chain(call.func) if isinstance(call, ast.Call) else None
        if ch in ("self.forward", "self.inverse", "self") and i == 0 and call.args:
            x = self.mat(call.args[0])
            q = Val.atom("Q[self]", self.atoms)
            return x.mul(q.inv() if ch == "self.inverse" else q)
        return LinEval._component(self, call, i)
