"""C19 (dtype sentence only) and C20 UT-DTYPE: dtype provenance.

The main body of C19 -- float32 agrees with float64 to single-precision accuracy, results stay
finite -- is numerical analysis and is declined.  What is decided: "results carry the dtype of
the inputs" and "a .double() model evaluates without a dtype error".

Annotation = set of possible dtype provenances of a tensor:
  M  follows the model / the inputs (parameters, buffers, arguments: converted by .double())
  D  a fixed or default floating dtype (torch.eye/zeros/... without dtype=, .float(),
     .type(torch.Tensor), tensor-valued plain attributes -- not converted by .double())
  I  integer / boolean
Python numbers carry no label.  Promotion follows torch: I < D < M (a dimensioned M operand
dominates; D wins over I; Python floats turn I into D).
"""

import ast

from .. import tops
from ..entries import enumerate_entries, entry_args
from ..interp import AV, Domain, Interp, OBJ, T, NUM, TUP, LST, E, all_ann
from ..model import AnalysisIncomplete, PARAM, BUFFER, norm_text, stmt_of
from ..report import Finding, RuleResult
from . import register, A_NET, A_UMNN, T_OPS

M, D, I = "M", "D", "I"
ORDER = {I: 0, D: 1, M: 2}


def promote(a, b):
    if not a:
        return set(b)
    if not b:
        return set(a)
    out = set()
    for x in a:
        for y in b:
            out.add(x if ORDER[x] >= ORDER[y] else y)
    return out


class DtypeDomain(Domain):
    name = "dtype"
    value_semantics = True
    store_updates_value = False  # x[i] = v never changes the dtype of x
    inplace_keeps_receiver = True  # x += v keeps the dtype of x (the sum is cast down to it)

    def __init__(self):
        self.mix = []

    def join_ann(self, a, b):
        return a | b

    def shape_ann(self, ann):
        return E

    # sources
    def arg(self, func, pname, idx, default):
        return T(frozenset({M}))

    def state(self, interp, objav, path, attrinfo, node):
        if attrinfo is None or attrinfo.kind in (PARAM, BUFFER) or any(a.kind in (PARAM, BUFFER) for a in getattr(attrinfo, "alts", [])):
            return T(frozenset({M}))
        return T(frozenset({D}))  # tensor-valued plain attribute: nn.Module._apply does not convert it

    def net_result(self, interp, netav, method, args, kwargs, node):
        return T(frozenset({M}))

    def ext_module_result(self, interp, dotted, path, args, kwargs, node):
        return T(frozenset({M}))

    def umnn_call(self, interp, dotted, args, kwargs, node):
        return T(frozenset({M}))

    def numpy_call(self, interp, dotted, args, kwargs, node):
        return NUM()

    def _dtype_kw(self, kwargs, args=()):
        d = kwargs.get("dtype")
        if d is None:
            return None
        if d.kind == "dtype":
            return set(d.ann)
        if d.kind == "ext":
            return {I} if any(s in d.data for s in ("int", "long", "bool", "uint8")) else {D}
        return {D}

    def ctor(self, interp, op, args, kwargs, node):
        dk = self._dtype_kw(kwargs)
        if dk is not None:
            return T(frozenset(dk))
        if op in ("tensor", "as_tensor") and args:
            a = args[0]
            if a.kind == "tensor":
                return T(a.ann)
            if a.kind == "const" and isinstance(a.data, bool):
                return T(frozenset({I}))
            if a.kind in ("list", "tuple"):
                inner = all_ann(self, a)
                if inner:
                    return T(frozenset(inner))
        if op in tops.CTOR_INT:
            return T(frozenset({I}))
        return T(frozenset({D}))

    # operations
    def op(self, interp, op, info, recv, args, kwargs, node):
        cat = info.get("cat")
        ra = set(recv.ann) if recv is not None and recv.kind in ("tensor", "top") else (set(all_ann(self, recv)) if recv is not None else set())
        if cat in ("inplace", "init"):
            return recv
        if cat == "scalar":
            if op == "size" and not args and "dim" not in kwargs:
                return AV("shape", None, E)
            return NUM()
        tens_args = [a for a in list(args) + [v for k, v in kwargs.items() if k not in ("dtype", "out")] if isinstance(a, AV) and a.kind in ("tensor", "top")]
        if info.get("same") or op in ("lu_solve",):
            self._check_mix(interp, op, [recv] + tens_args if recv is not None else tens_args, node)
        dk = self._dtype_kw(kwargs)
        if dk is not None:
            return self._shape_result(info, frozenset(dk))
        if op in ("float", "double", "half"):
            return T(frozenset({D}))
        if op in ("long", "int", "byte", "bool"):
            return T(frozenset({I}))
        if op in ("to", "type", "type_as"):
            for a in list(args) + list(kwargs.values()):
                if a.kind == "dtype":
                    return T(a.ann)
                if a.kind in ("tensor",) and op in ("to", "type_as"):
                    return T(a.ann)
                if a.kind == "ext":
                    if a.data in ("torch.Tensor", "torch.FloatTensor") or "float" in a.data or "double" in a.data:
                        return T(frozenset({D}))
                    if any(s in a.data for s in ("int", "long", "bool", "Long", "Byte", "Bool")):
                        return T(frozenset({I}))
            return T(frozenset(ra))
        if info.get("idx"):
            if op in ("sign", "floor", "ceil", "round"):
                return T(frozenset(ra))  # same dtype as the operand
            return self._shape_result(info, frozenset({I}))
        if op in ("gather", "index_select", "masked_select", "repeat", "repeat_interleave", "pad", "flip", "roll", "diag", "cumsum", "softmax", "log_softmax", "clamp", "iter") or cat in ("alias", "aliases", "like"):
            res = set(ra)
            if op in ("softmax", "log_softmax", "cumsum") and res == {I}:
                res = {D}
            return self._shape_result(info, frozenset(res))
        if op in ("sum", "prod", "min", "max", "amax", "amin", "all", "any"):
            if op in ("all", "any"):
                return T(frozenset({I}))
            r = set(ra)
            if op in ("min", "max") and tens_args:
                for a in tens_args:
                    r = promote(r, set(a.ann))
            return T(frozenset(r))
        # float-valued functions: integer inputs become the default float dtype
        r = set(ra)
        for a in tens_args:
            r = promote(r, set(all_ann(self, a)))
        if op in ("cat", "stack") and recv is not None:
            r = set(all_ann(self, recv))
            if len(r) > 1 and M in r:
                r = {M}
        if info.get("ew") and r == {I} and op not in ("abs", "neg", "clone", "where", "mul", "add", "sub", "logical_not"):
            r = {D}
        if op in ("mean", "var", "std", "logsumexp", "norm") and r == {I}:
            r = {D}
        return self._shape_result(info, frozenset(r))

    def _shape_result(self, info, ann):
        cat = info.get("cat")
        if cat == "aliases":
            return LST(None, T(ann))
        if cat == "tuple":
            return TUP([T(ann) for _ in range(info.get("n", 2))])
        return T(ann)

    def _check_mix(self, interp, op, operands, node):
        anns = [set(o.ann) for o in operands if o is not None and o.kind == "tensor"]
        if any(a == {D} for a in anns) and any(a == {M} for a in anns):
            frame = interp.frame
            stack = ["%s" % f.func.qualname for f in frame.stack()]
            self.mix.append((frame.func, node, op, stack))

    def binop(self, interp, opnode, left, right, node):
        la = set(all_ann(self, left)) if left.kind in ("tensor", "top") else set()
        ra = set(all_ann(self, right)) if right.kind in ("tensor", "top") else set()
        if isinstance(opnode, ast.MatMult):
            self._check_mix(interp, "@", [left, right], node)
        r = promote(la, ra)
        other = right if left.kind in ("tensor", "top") else left
        if r == {I}:
            py_float = (other.kind == "const" and isinstance(other.data, float)) or other.kind == "num"
            if isinstance(opnode, ast.Div) or (py_float and not (left.kind in ("tensor", "top") and right.kind in ("tensor", "top"))):
                r = {D} if isinstance(opnode, ast.Div) or (other.kind == "const" and isinstance(other.data, float)) else {I, D}
        return T(frozenset(r))

    def compare(self, interp, left, right, node):
        return T(frozenset({I}))

    def subscript(self, interp, base, index, node):
        return AV(base.kind, None, base.ann)


SINKS = {
    "transform": {"forward", "inverse", "matrix", "weight", "weight_inverse", "logabsdet", "weight_and_logabsdet", "weight_inverse_and_logabsdet", "forward_no_cache", "inverse_no_cache"},
    "distribution": {"log_prob", "_log_prob", "transform_to_noise"},
    "spline": None,
}


def analyse(p, kinds):
    dom = DtypeDomain()
    it = Interp(p, dom)
    # `.dtype` of a tensor carries its provenance
    per_entry = []
    for e in enumerate_entries(p):
        if e.kind not in kinds:
            continue
        allowed = SINKS.get(e.kind, None) if e.kind != "util" else None
        if allowed is not None and e.func.name not in allowed:
            continue
        if e.cls is not None and not e.cls.is_nn_module():
            continue  # torch.distributions-based priors are not transforms / flows
        self_av = OBJ(e.cls) if e.cls is not None and not e.func.is_static else None
        r = it.run_function(e.func, self_av, entry_args(dom, e))
        per_entry.append((e, r))
    return dom, it, per_entry


def _results(ctx, kinds, rule_mix, rule_res, sinks):
    p = ctx.p
    dom, it, per_entry = ctx.shared(("dtype", kinds), lambda: analyse(p, kinds))
    res_mix = RuleResult(rule_mix, "no default-dtype tensor meets a model/input-dtype tensor in an operand position that does not promote (@, F.linear, lu_solve, ger, mm, ...)")
    res_res = RuleResult(rule_res, "no returned result takes its dtype only from a default-dtype constructor or an explicit float32 cast")
    seen = set()
    for fi, node, op, stack in dom.mix:
        key = (fi.qualname, norm_text(stmt_of(node) or node))
        if key in seen:
            continue
        seen.add(key)
        res_mix.fail(Finding(rule_mix, fi.module, fi.qualname, stmt_of(node) or node, "operand of `%s` has the default dtype while the other follows the model/inputs: a float64 model or float64 arguments raise a dtype error here" % op, witness=stack))
    res_mix.ok("%d entry points, %d functions: same-dtype-only operand positions examined" % (len(per_entry), len(it.stats["functions"])))
    from .c16 import _tensor_leaves

    n = 0
    for e, r in per_entry:
        allowed = sinks.get(e.kind, set())
        if allowed is not None and e.func.name not in allowed:
            continue
        leaves = _tensor_leaves(r)
        bad = [l for l in leaves if l.ann and l.ann <= {D}]
        n += 1
        if bad:
            # locate the returning function
            f = e.func
            res_res.fail(Finding(rule_res, f.module, "%s[%s]" % (f.qualname, e.label) if e.cls is not None and f.cls is not e.cls else f.qualname, f.node, "a returned tensor of %s has a dtype that never follows the inputs / parameters (built only from default-dtype constructors or float32 casts): float64 inputs give float32 results" % e.label, construct="result dtype of %s" % e.label))
        else:
            res_res.ok("%s: result dtypes follow inputs/parameters" % e.label, nontrivial=bool(leaves))
    return [res_mix, res_res]


PROD_REDUCTIONS = {"prod", "cumprod", "det"}


def logspace_rule(ctx):
    """NUM-LOGSPACE: log-densities and log-dets are accumulated in log space.  `log(prod(d))` /
    `log|det M|` through the determinant under- or overflows in float32 for products of many
    moderate factors (0.1 ** 50 == 0 in float32) where `sum(log(d))` stays finite -- the
    'stays finite on moderate parameters' clause.  Decided per log call: its argument, with
    single-assignment locals resolved and abs / clamp / positive shifts peeled, must not be a
    product reduction.  (A structural necessary condition; agreement to single precision is
    numerical analysis and stays declined.)"""
    import ast

    from ..astutil import const_number

    res, n = _logspace(ctx.p)
    if n < 30:
        raise AnalysisIncomplete("NUM-LOGSPACE: %d log calls examined (< 30; the count on the pinned tree is larger, the floor leaves room for merged call sites confirmed by hand)" % n)
    return res


def logspace_findings(p):
    return _logspace(p)[0].findings


def _logspace(p):
    import ast

    from ..astutil import const_number

    res = RuleResult("NUM-LOGSPACE", "no log is taken of a product reduction (prod / cumprod / det): log-dets and log-densities are sums of logs")
    n = 0
    for mi in p.modules.values():
        if not (mi.name.startswith("nflows.transforms") or mi.name.startswith("nflows.distributions") or mi.name.startswith("nflows.flows") or mi.name == "nflows.utils.torchutils"):
            continue
        for fn in ast.walk(mi.tree):
            if not isinstance(fn, ast.FunctionDef):
                continue
            # single-assignment locals of this function
            defs = {}
            for st in ast.walk(fn):
                if isinstance(st, ast.Assign) and len(st.targets) == 1 and isinstance(st.targets[0], ast.Name):
                    defs.setdefault(st.targets[0].id, []).append(st.value)
                elif isinstance(st, (ast.AugAssign, ast.For)) and isinstance(getattr(st, "target", None), ast.Name):
                    defs.setdefault(st.target.id, []).append(None)

            def peel(e, depth=0):
                while depth < 8:
                    depth += 1
                    if isinstance(e, ast.Name) and len(defs.get(e.id, [])) == 1 and defs[e.id][0] is not None:
                        e = defs[e.id][0]
                        continue
                    if isinstance(e, ast.Call):
                        f = e.func
                        last = f.attr if isinstance(f, ast.Attribute) else (f.id if isinstance(f, ast.Name) else "")
                        if last in ("abs", "clamp", "clamp_min", "float", "double", "squeeze", "reshape", "view"):
                            is_mod = isinstance(f, ast.Attribute) and isinstance(f.value, ast.Name) and f.value.id in ("torch", "F", "np")
                            e = (e.args[0] if e.args else e) if is_mod or not isinstance(f, ast.Attribute) else f.value
                            continue
                    if isinstance(e, ast.BinOp) and isinstance(e.op, ast.Add):
                        if const_number(e.right) is not None or (isinstance(e.right, ast.Attribute) and "eps" in e.right.attr):
                            e = e.left
                            continue
                        if const_number(e.left) is not None or (isinstance(e.left, ast.Attribute) and "eps" in e.left.attr):
                            e = e.right
                            continue
                    return e
                return e

            for c in ast.walk(fn):
                if not (isinstance(c, ast.Call) and isinstance(c.func, ast.Attribute) and c.func.attr == "log"):
                    continue
                is_mod = isinstance(c.func.value, ast.Name) and c.func.value.id in ("torch", "np", "math")
                arg = (c.args[0] if c.args else None) if is_mod else c.func.value
                if arg is None:
                    continue
                if is_mod and c.func.value.id in ("np", "math"):
                    continue  # Python-level constants
                n += 1
                a = peel(arg)
                flagged = False
                if isinstance(a, ast.Call):
                    f = a.func
                    last = f.attr if isinstance(f, ast.Attribute) else (f.id if isinstance(f, ast.Name) else "")
                    if last in PROD_REDUCTIONS:
                        qual = fn.name
                        par = getattr(fn, "_parent", None)
                        while par is not None:
                            if isinstance(par, (ast.ClassDef, ast.FunctionDef)):
                                qual = par.name + "." + qual
                            par = getattr(par, "_parent", None)
                        flagged = True
                        res.fail(Finding("NUM-LOGSPACE", mi, qual, c, "log of `%s`: the product of many moderate factors under-/overflows in float32 although the sum of their logs is finite (0.1 ** 50 == 0.0 in float32)" % norm_text(a)[:60]))
                if not flagged:
                    res.ok("%s:%s log(%s)" % (mi.relpath, fn.name, norm_text(a)[:50]))
    return res, n


def _moment_findings(p):
    """NUM-MOMENT: a variance assembled from raw moments, mean(x**2) - mean(x)**2, loses
    cond**2 digits (the property allows cond): for data with |mean| / std ~ 100 it has no correct
    digit in float32 and can go negative.  Decided per subtraction, single-assignment locals
    resolved: minuend a mean / sum of a square of X, subtrahend the square of a mean / sum of
    the same X."""
    import ast

    from ..astutil import const_number

    res = RuleResult("NUM-MOMENT", "no variance / spread is assembled from raw moments (mean(x**2) - mean(x)**2): the centred two-pass form (x.var(), ((x - mean)**2).mean()) is used")
    n = 0

    def last_and_recv(c):
        f = c.func
        if isinstance(f, ast.Attribute):
            is_mod = isinstance(f.value, ast.Name) and f.value.id in ("torch", "F", "np")
            return f.attr, ((c.args[0] if c.args else None) if is_mod else f.value)
        return "", None

    def square_of(e):
        if isinstance(e, ast.BinOp) and isinstance(e.op, ast.Pow) and const_number(e.right) == 2:
            return e.left
        if isinstance(e, ast.BinOp) and isinstance(e.op, ast.Mult) and norm_text(e.left) == norm_text(e.right):
            return e.left
        if isinstance(e, ast.Call):
            last, recv = last_and_recv(e)
            if last == "square" and recv is not None:
                return recv
            if last == "pow" and recv is not None:
                k = e.args[-1] if e.args else None
                if k is not None and const_number(k) == 2:
                    return recv
        return None

    for mi in p.modules.values():
        if not (mi.name.startswith("nflows.transforms") or mi.name.startswith("nflows.distributions") or mi.name.startswith("nflows.nn") or mi.name == "nflows.utils.torchutils"):
            continue
        for fn in ast.walk(mi.tree):
            if not isinstance(fn, ast.FunctionDef):
                continue
            defs = {}
            for st in ast.walk(fn):
                if isinstance(st, ast.Assign) and len(st.targets) == 1:
                    t = st.targets[0]
                    if isinstance(t, ast.Name):
                        defs.setdefault(t.id, []).append(st.value)
                    elif isinstance(t, ast.Tuple) and isinstance(st.value, ast.Tuple) and len(t.elts) == len(st.value.elts):
                        for a, b in zip(t.elts, st.value.elts):
                            if isinstance(a, ast.Name):
                                defs.setdefault(a.id, []).append(b)

            def nearest_def(name_node):
                """the closest preceding assignment of the name in the statement list that holds its use"""
                st = name_node
                while st is not None and not isinstance(st, ast.stmt):
                    st = getattr(st, "_parent", None)
                while st is not None and st is not fn:
                    par = getattr(st, "_parent", None)
                    for field in ("body", "orelse", "finalbody"):
                        block = getattr(par, field, None)
                        if isinstance(block, list) and st in block:
                            for prev in reversed(block[: block.index(st)]):
                                if isinstance(prev, ast.Assign) and len(prev.targets) == 1:
                                    t = prev.targets[0]
                                    if isinstance(t, ast.Name) and t.id == name_node.id:
                                        return prev.value
                                    if isinstance(t, ast.Tuple) and isinstance(prev.value, ast.Tuple) and len(t.elts) == len(prev.value.elts):
                                        for a, b in zip(t.elts, prev.value.elts):
                                            if isinstance(a, ast.Name) and a.id == name_node.id:
                                                return b
                    st = par
                return None

            def res_name(e, depth=0):
                while isinstance(e, ast.Name) and depth < 6:
                    d = nearest_def(e) if hasattr(e, "_parent") else None
                    if d is None and len(defs.get(e.id, [])) == 1:
                        d = defs[e.id][0]
                    if d is None:
                        break
                    e = d
                    depth += 1
                return e

            def moment(e):
                """(order, text of X) when e is mean/sum(X) [order 1] or mean/sum(X**2) [order 2]"""
                e = res_name(e)
                if isinstance(e, ast.Call):
                    last, recv = last_and_recv(e)
                    if last in ("mean", "sum") and recv is not None:
                        recv = res_name(recv)
                        sq = square_of(recv)
                        if sq is not None:
                            return 2, norm_text(res_name(sq))
                        return 1, norm_text(recv)
                return None

            for node in ast.walk(fn):
                if not (isinstance(node, ast.BinOp) and isinstance(node.op, ast.Sub)):
                    continue
                n += 1
                lm = moment(node.left)
                r = res_name(node.right)
                rsq = square_of(r)
                rm = moment(rsq) if rsq is not None else None
                if lm is not None and rm is not None and lm[0] == 2 and rm[0] == 1 and lm[1] == rm[1]:
                    qual = fn.name
                    par = getattr(fn, "_parent", None)
                    while par is not None:
                        if isinstance(par, (ast.ClassDef, ast.FunctionDef)):
                            qual = par.name + "." + qual
                        par = getattr(par, "_parent", None)
                    res.fail(Finding("NUM-MOMENT", mi, qual, node, "the spread of `%s` is computed as mean(x**2) - mean(x)**2: the relative error is eps * (mean/std)**2 -- for |mean|/std around 100 no digit is correct in float32 and the result can be negative (NaN after sqrt / log)" % lm[1][:40]))
    return res, n


def moment_rule(ctx):
    res, n = _moment_findings(ctx.p)
    if n < 100:
        raise AnalysisIncomplete("NUM-MOMENT: %d subtractions examined (< 100)" % n)
    res.ok("%d subtractions examined, none a raw-moment variance" % n)
    return res


def moment_findings(p):
    return _moment_findings(p)[0].findings


def c19_rules(ctx):
    out = _results(ctx, ("transform", "distribution", "spline"), "DT-MIX", "DT-RESULT", SINKS)
    if len(out[1].instances) < 100:
        raise AnalysisIncomplete("DT-RESULT: %d entry points examined (< 100 confirmed by hand)" % len(out[1].instances))
    return out


def c20_dtype(ctx):
    out = _results(ctx, ("util",), "UT-DTYPE", "UT-DTYPE-RESULT", {"util": None})
    # helpers that build tensors from Python data (masks, temperatures, random matrices) have
    # no tensor argument whose dtype they could follow: only the operand-mixing half applies
    return [out[0]]


# ---------------------------------------------------------------------------------------
# NUM-SATURATE: no log of a saturated squashing function
# ---------------------------------------------------------------------------------------

# the limits a squashing function *rounds to* at moderate arguments (1 - sigmoid(z) drops below half an ulp of 1 at
# z ~ 17 in float32, 1 - |tanh(z)| at |z| ~ 9); the limit 0 of sigmoid / softmax is only reached by underflow (z ~ -88)
_SQUASH = {"sigmoid": (1,), "expit": (1,), "tanh": (-1, 1), "softmax": (1,)}
_LOGS = {"log": 0, "log1p": 1, "log2": 0, "log10": 0}


def _bounded_both_sides(mask, xtext, depth=0):
    """does the boolean mask bound the value with text `xtext` from below and from above?
    (~((x > c) | (x < -c)),  (x >= -c) & (x <= c),  abs(x) <= c)"""
    import ast

    def bounds(e, neg, d=0):
        # -> set of {"lo", "hi"} that the (possibly negated) test implies for x
        if d > 8:
            return set()
        if isinstance(e, ast.UnaryOp) and isinstance(e.op, (ast.Invert, ast.Not)):
            return bounds(e.operand, not neg, d + 1)
        if isinstance(e, ast.BinOp) and isinstance(e.op, (ast.BitAnd, ast.BitOr)) or isinstance(e, ast.BoolOp):
            parts = [e.left, e.right] if isinstance(e, ast.BinOp) else list(e.values)
            is_and = isinstance(e.op, (ast.BitAnd, ast.And))
            if neg:
                is_and = not is_and  # De Morgan
            got = [bounds(q, neg, d + 1) for q in parts]
            if is_and:
                out = set()
                for g in got:
                    out |= g
                return out
            out = got[0]
            for g in got[1:]:
                out = out & g
            return out
        if isinstance(e, ast.Compare) and len(e.ops) == 1:
            l, r, op = e.left, e.comparators[0], type(e.ops[0])
            lt, rt = norm_text(l), norm_text(r)
            for a, b, o in ((lt, rt, op), (rt, lt, {ast.Lt: ast.Gt, ast.LtE: ast.GtE, ast.Gt: ast.Lt, ast.GtE: ast.LtE}.get(op))):
                if o is None:
                    continue
                if a == xtext and b != xtext:
                    upper = o in (ast.Lt, ast.LtE)
                    if neg:
                        upper = not upper
                    return {"hi"} if upper else {"lo"}
                if a in ("torch.abs(%s)" % xtext, "%s.abs()" % xtext, "abs(%s)" % xtext) and o in (ast.Lt, ast.LtE) and not neg:
                    return {"lo", "hi"}
                if a in ("torch.abs(%s)" % xtext, "%s.abs()" % xtext, "abs(%s)" % xtext) and o in (ast.Gt, ast.GtE) and neg:
                    return {"lo", "hi"}
        return set()

    return bounds(mask, False) == {"lo", "hi"}


def saturate_rule(ctx):
    """NUM-SATURATE.  sigmoid / tanh / softmax reach their limits *exactly* in floating point (float32:
    sigmoid(17) == 1, tanh(9.1) == 1), so `log(s)`, `log1p(-s)`, `log(1 - y**2)` of their output are -inf for
    inputs of moderate size where the quantity itself (log sigmoid'(z) = -softplus(-z) - softplus(z)) is a
    small finite number.  Every log call in transforms / distributions / flows is examined on the symbolic
    expansion of its function: if its argument is a polynomial in the output of one squashing call which
    vanishes at a saturation limit of that call, and the squashed value is not confined to a two-sided
    bounded region by a mask, it is reported.  A structural necessary condition of 'finite on moderate
    inputs'; accuracy stays undecided."""
    import ast

    from ..astutil import _int_eval, _NoEval, const_number
    from ..symexp import paths_of, uwalk, shash, size_upto

    p = ctx.p
    res = RuleResult("NUM-SATURATE", "no log / log1p of an expression that vanishes where a sigmoid / tanh / softmax output saturates (those limits are reached exactly in float32)")
    n_logs = 0
    reported = set()

    def last(c):
        f = c.func
        return f.attr if isinstance(f, ast.Attribute) else (f.id if isinstance(f, ast.Name) else "")

    def operands(c):
        f = c.func
        if isinstance(f, ast.Attribute) and not (isinstance(f.value, ast.Name) and f.value.id in ("torch", "F", "np", "math")) and not (isinstance(f.value, ast.Attribute) and norm_text(f.value) in ("torch.nn.functional", "torch.special")):
            return [f.value] + list(c.args)
        return list(c.args)

    for mi in p.modules.values():
        if not (mi.name.startswith("nflows.transforms") or mi.name.startswith("nflows.distributions") or mi.name.startswith("nflows.flows") or mi.name.startswith("nflows.nn.nde")):
            continue
        funcs = list(mi.functions.values()) + [m for c in mi.classes.values() for m in c.methods.values()]
        for fi in funcs:
            if getattr(fi, "is_lambda", False):
                continue
            src_calls = {last(c) for c in ast.walk(fi.node) if isinstance(c, ast.Call)}
            if not (src_calls & set(_LOGS)) and not any(nm.startswith("_") for nm in src_calls):
                continue
            try:
                paths = paths_of(fi.node)
            except AnalysisIncomplete:
                raise
            except Exception:
                continue
            for path in paths:
                exprs = ([path.ret] if path.ret is not None else []) + [part for eff in path.effects for part in eff[2:] if isinstance(part, ast.AST)]
                for ex in exprs:
                    if size_upto(ex, 20000) > 20000:
                        continue
                    for c in uwalk(ex):
                        if not (isinstance(c, ast.Call) and last(c) in _LOGS):
                            continue
                        f = c.func
                        if isinstance(f, ast.Attribute) and isinstance(f.value, ast.Name) and f.value.id in ("np", "math"):
                            continue
                        ops = operands(c)
                        if len(ops) != 1:
                            continue
                        n_logs += 1
                        arg = ops[0]
                        squash = [q for q in uwalk(arg) if isinstance(q, ast.Call) and last(q) in _SQUASH]
                        if not squash:
                            continue
                        kinds = {shash(q) for q in squash}
                        # the outermost squashing calls only (a sigmoid inside a tanh argument is not an output)
                        inner = {shash(x) for q in squash for a in operands(q) for x in uwalk(a) if isinstance(x, ast.Call) and last(x) in _SQUASH}
                        outer = [q for q in squash if shash(q) not in inner]
                        if len({shash(q) for q in outer}) != 1:
                            continue
                        q = outer[0]
                        limits = _SQUASH[last(q)]
                        # polynomial in the squashed value?
                        hq = shash(q)

                        def poly(e, d=0):
                            if d > 40:
                                raise _NoEval()
                            if isinstance(e, ast.AST) and isinstance(e, ast.expr) and shash(e) == hq:
                                return ast.Name(id="__s__", ctx=ast.Load())
                            if isinstance(e, ast.Subscript):
                                # a masked / indexed read of the squashed tensor is still a squashed value
                                return poly(e.value, d + 1)
                            if isinstance(e, ast.Call) and last(e) == "__store__":
                                # a tensor assembled by masked stores: any stored piece may be the one read
                                raise _NoEval()
                            if isinstance(e, ast.BinOp):
                                return ast.BinOp(left=poly(e.left, d + 1), op=e.op, right=poly(e.right, d + 1))
                            if isinstance(e, ast.UnaryOp):
                                return ast.UnaryOp(op=e.op, operand=poly(e.operand, d + 1))
                            if isinstance(e, ast.Call) and last(e) in ("pow", "square") and operands(e):
                                oo = operands(e)
                                k = ast.Constant(value=2) if last(e) == "square" else (oo[1] if len(oo) > 1 else None)
                                if k is None:
                                    raise _NoEval()
                                return ast.BinOp(left=poly(oo[0], d + 1), op=ast.Pow(), right=k)
                            if const_number(e) is not None:
                                return ast.Constant(value=const_number(e))
                            raise _NoEval()

                        try:
                            pe = poly(arg)
                            vals = []
                            for lim in limits:
                                v = _int_eval(pe, {"__s__": lim})
                                vals.append(v + _LOGS[last(c)])
                        except _NoEval:
                            # masked assembly: look for the piece `squash(x[mask])` read back through the same mask
                            continue
                        except Exception:
                            continue
                        if not any(abs(v) < 1e-12 for v in vals):
                            continue
                        # confined to a bounded region by a mask?
                        qa = operands(q)[0] if operands(q) else None
                        if isinstance(qa, ast.Subscript) and _bounded_both_sides(qa.slice, norm_text(qa.value)):
                            res.ok("%s: %s of a squashed value confined to a bounded region by its mask" % (fi.qualname, last(c)))
                            continue
                        key = (fi.qualname, last(c), last(q), tuple(vals))
                        if key in reported:
                            continue
                        reported.add(key)
                        at = [str(l) for l, v in zip(limits, vals) if abs(v) < 1e-12]
                        res.fail(Finding("NUM-SATURATE", mi, fi.qualname, fi.node, "%s of an expression that is 0 where %s(..) = %s: %s rounds to that limit in float32 for inputs of moderate size (sigmoid(17) == 1, tanh(9.1) == 1), so the result is -inf where the true value is a modest finite number; use the softplus / logsigmoid form of the log-derivative" % (last(c), last(q), " or ".join(at), last(q)), construct="%s of saturating %s" % (last(c), last(q))))
    if n_logs < getattr(ctx, "saturate_floor", 20):
        raise AnalysisIncomplete("NUM-SATURATE: %d log calls examined on expansions (< 20)" % n_logs)
    res.ok("%d log calls examined" % n_logs, nontrivial=False)
    return res


def dt_memo_rule(ctx):
    """DT-MEMO = OWN-ATTR for kept tensors (shared with C13): a tensor kept in a plain attribute or a Python
    container is not converted by .double() / .float() / .to(): a model evaluated once in float32 and then
    converted returns the kept float32 tensor for float64 inputs."""
    from .own_rules import memo_findings

    return memo_findings(ctx, "DT-MEMO", "the kept tensor is not converted by .double() / .to(), so a converted model returns results in the dtype of the call that filled the memo")


def dt_finfo_rule(ctx):
    """DT-FINFO.  The float32 model and its .double() twin are the same function evaluated in two precisions.  A
    constant taken from `torch.finfo(<the dtype of the data>)` -- eps, tiny, min, max -- and used as a *value*
    (a clamp bound, an offset, a threshold of torch.where) makes them two different functions wherever that
    constant acts: clipping to [eps, 1 - eps] cuts the logit off at -15.9 in single precision and at -36 in
    double.  Such a constant may only be compared against (argument validation, a tolerance in a raise guard)."""
    import ast

    from .shared_rules import _functions, _own_nodes

    p = ctx.p
    res = RuleResult("DT-FINFO", "no bound / offset / threshold of the computed function is taken from torch.finfo of the data's dtype (the single- and double-precision models would be different functions where it acts); comparisons in guards are allowed")
    n_fn = n_use = 0
    for mod, qual, fn, cls in _functions(p):
        n_fn += 1
        nodes = _own_nodes(fn)
        for n in nodes:
            if not (isinstance(n, ast.Call) and isinstance(n.func, ast.Attribute) and n.func.attr in ("finfo", "iinfo") and isinstance(n.func.value, ast.Name) and n.func.value.id in ("torch", "np", "numpy")):
                continue
            if not n.args or not any(isinstance(x, ast.Attribute) and x.attr == "dtype" for x in ast.walk(n.args[0])) and not isinstance(n.args[0], ast.Name):
                continue  # finfo(torch.float32): one constant for every precision
            if isinstance(n.args[0], ast.Name):
                defs = [a.value for a in nodes if isinstance(a, ast.Assign) and any(isinstance(t, ast.Name) and t.id == n.args[0].id for t in a.targets)]
                if not any(isinstance(x, ast.Attribute) and x.attr == "dtype" for d in defs for x in ast.walk(d)) and defs:
                    continue
            n_use += 1
            # follow the value: finfo(..).eps [-> local name]* -> use
            frontier, uses, seen = [n], [], set()
            while frontier:
                cur = frontier.pop()
                par = getattr(cur, "_parent", None)
                while isinstance(par, (ast.Attribute, ast.BinOp, ast.UnaryOp, ast.IfExp, ast.Call)) and not (isinstance(par, ast.Call) and par.func is not cur and not (isinstance(par.func, ast.Name) and par.func.id in ("float", "max", "min", "abs"))):
                    cur, par = par, getattr(par, "_parent", None)
                if isinstance(par, ast.Assign) and par.value is cur and all(isinstance(t, ast.Name) for t in par.targets):
                    for t in par.targets:
                        if t.id in seen:
                            continue
                        seen.add(t.id)
                        frontier.extend(x for x in nodes if isinstance(x, ast.Name) and x.id == t.id and isinstance(x.ctx, ast.Load))
                    continue
                uses.append((cur, par))
            bad = None
            for cur, par in uses:
                q = par
                in_cmp = False
                while q is not None and q is not fn:
                    if isinstance(q, ast.Compare):
                        in_cmp = True
                    if isinstance(q, ast.stmt):
                        break
                    q = getattr(q, "_parent", None)
                guard = in_cmp and isinstance(q, (ast.If, ast.Assert, ast.While))
                if not guard:
                    bad = (cur, par)
                    break
            if bad is None:
                res.ok("%s: `%s` is only compared against in guards" % (qual, norm_text(n)[:40]))
                continue
            st = bad[1]
            while st is not None and not isinstance(st, ast.stmt):
                st = getattr(st, "_parent", None)
            res.fail(Finding("DT-FINFO", mod, qual, st or n, "`%s` enters the computed value (`%s`): the bound depends on the precision the model is run in, so the float32 model and its float64 twin are different functions where it acts (e.g. a clip at machine epsilon: logit cut off at -15.9 in single and at -36.0 in double precision) -- they cannot agree to single-precision accuracy there; use one constant for both precisions" % (norm_text(n)[:50], norm_text(st)[:80] if st is not None else ""), construct="finfo of the data dtype used as a value in %s" % qual))
    if n_fn < getattr(ctx, "finfo_floor", 300):
        raise AnalysisIncomplete("DT-FINFO: only %d functions examined" % n_fn)
    res.ok("%d functions examined, %d reads of finfo(<data dtype>)" % (n_fn, n_use), nontrivial=False)
    return res


def dt_numpy_rule(ctx):
    """DT-NUMPY.  numpy computes in float64; `torch.as_tensor(a)` / `torch.from_numpy(a)` / `torch.tensor(a)` of a
    numpy array keep that dtype.  Where such a tensor *becomes* model state without a conversion -- `p.data = t`,
    `nn.Parameter(t)`, `register_buffer(name, t)` / `register_parameter`, `self.x = t` read by evaluation -- a
    nominally float32 model holds float64 state: float32 inputs come back as float64 (results do not carry the
    dtype of the inputs) and the next float32 layer raises a dtype error that the .double() twin does not.
    (`p.data.copy_(t)`, `t.to(p.dtype)`, `dtype=` convert and are fine.)"""
    import ast

    from .shared_rules import _functions, _own_nodes

    p = ctx.p
    res = RuleResult("DT-NUMPY", "no tensor made from a numpy array (float64) becomes a parameter / buffer / stored attribute without a dtype conversion")
    ARRAY_FNS = {"broadcast_to", "array", "asarray", "arange", "linspace", "zeros", "ones", "full", "stack", "concatenate", "tile", "repeat", "cumsum", "outer", "eye", "diag", "log", "exp", "sqrt", "abs", "tanh", "clip", "where", "maximum", "minimum", "mod", "insert", "float64"}
    n_fn = n_site = 0
    for mod, qual, fn, cls in _functions(p):
        n_fn += 1
        nodes = _own_nodes(fn)

        def arrayish(e, depth=0):
            """may `e` be a numpy array / numpy float64 scalar computed by numpy?"""
            if depth > 4:
                return False
            if isinstance(e, ast.Call) and isinstance(e.func, ast.Attribute) and isinstance(e.func.value, ast.Name) and e.func.value.id in ("np", "numpy") and e.func.attr in ARRAY_FNS:
                # np.log(2.0) of constants is a Python-float-like scalar only when every argument is a constant
                return not all(isinstance(a, ast.Constant) or (isinstance(a, ast.BinOp) and all(isinstance(x, (ast.Constant, ast.BinOp, ast.operator, ast.Attribute, ast.Name, ast.Load)) and not (isinstance(x, ast.Name) and x.id not in ("np", "math")) for x in ast.walk(a))) for a in e.args)
            if isinstance(e, ast.Name):
                defs = [a.value for a in nodes if isinstance(a, ast.Assign) and any(isinstance(t, ast.Name) and t.id == e.id for t in a.targets)]
                return any(arrayish(d, depth + 1) for d in defs)
            if isinstance(e, (ast.BinOp,)):
                return arrayish(e.left, depth + 1) or arrayish(e.right, depth + 1)
            if isinstance(e, ast.UnaryOp):
                return arrayish(e.operand, depth + 1)
            if isinstance(e, ast.Subscript):
                return arrayish(e.value, depth + 1)
            return False

        def numpy_tensor(e):
            """torch.as_tensor / from_numpy / tensor of a numpy array, with no dtype= and no conversion applied"""
            if isinstance(e, ast.Call) and isinstance(e.func, ast.Attribute) and isinstance(e.func.value, ast.Name) and e.func.value.id == "torch" and e.func.attr in ("as_tensor", "from_numpy", "tensor") and e.args and not any(k.arg == "dtype" for k in e.keywords):
                return arrayish(e.args[0])
            if isinstance(e, ast.Name):
                defs = [a.value for a in nodes if isinstance(a, ast.Assign) and any(isinstance(t, ast.Name) and t.id == e.id for t in a.targets)]
                return bool(defs) and all(numpy_tensor(d) for d in defs)
            if isinstance(e, ast.UnaryOp):
                return numpy_tensor(e.operand)
            return False

        for n in nodes:
            val, how = None, None
            if isinstance(n, ast.Assign) and len(n.targets) == 1:
                t = n.targets[0]
                if isinstance(t, ast.Attribute) and t.attr == "data":
                    val, how = n.value, "`%s = ..`" % norm_text(t)
                elif isinstance(t, ast.Attribute) and isinstance(t.value, ast.Name) and t.value.id == "self":
                    val, how = n.value, "`self.%s = ..`" % t.attr
                    if isinstance(val, ast.Call) and norm_text(val.func).split(".")[-1] in ("Parameter", "Buffer") and val.args:
                        val = val.args[0]
            elif isinstance(n, ast.Call) and isinstance(n.func, ast.Attribute) and n.func.attr in ("register_buffer", "register_parameter") and len(n.args) >= 2:
                val, how = n.args[1], "`%s(..)`" % n.func.attr
                if isinstance(val, ast.Call) and norm_text(val.func).split(".")[-1] == "Parameter" and val.args:
                    val = val.args[0]
            if val is None:
                continue
            n_site += 1
            if numpy_tensor(val):
                res.fail(Finding("DT-NUMPY", mod, qual, n, "%s stores a tensor made from a numpy array without converting its dtype (`%s`): numpy computes in float64, so the module holds float64 state whatever dtype it is otherwise in -- float32 inputs then give float64 outputs / log-dets, and a following float32 layer raises a dtype error the .double() twin does not; convert with `.to(<the parameter's dtype>)` / `dtype=torch.get_default_dtype()` or write with `.data.copy_(..)`" % (how, norm_text(val)[:60]), construct="numpy-made tensor stored by %s" % qual))
    if n_fn < getattr(ctx, "numpy_floor", 300):
        raise AnalysisIncomplete("DT-NUMPY: only %d functions examined" % n_fn)
    res.ok("%d functions examined, %d stores of model state" % (n_fn, n_site), nontrivial=False)
    return res


register(
    "C19",
    [c19_rules, logspace_rule, moment_rule, saturate_rule, dt_memo_rule, dt_finfo_rule, dt_numpy_rule],
    "NUM-SATURATE: every log / log1p call is examined on the symbolic expansion of its function (helpers inlined): an argument that "
    "is a polynomial in the output of one sigmoid / tanh / softmax call and vanishes at a saturation limit of that call (log(s), "
    "log1p(-s), log(1 - y**2)) is reported unless the squashed value is confined to a two-sided bounded region by a mask -- those "
    "limits are reached exactly in float32 at moderate inputs, so the log is -inf where the true log-derivative is finite. "
    "NUM-MOMENT: every subtraction is examined (single-assignment locals resolved): a mean / sum of a square of X minus the "
    "square of a mean / sum of the same X is a variance from raw moments, whose float32 error scales with the square of the "
    "conditioning (the property allows the first power) and which can turn negative. NUM-LOGSPACE: every tensor log call in transforms / distributions / flows / torchutils is examined; its argument, with "
    "single-assignment locals resolved and abs / clamp / +eps peeled, must not be a prod / cumprod / det reduction (a log-det "
    "or log-density must be a sum of logs: the product of 50 factors of 0.1 is 0.0 in float32) -- a structural necessary "
    "condition of the 'stays finite' clause. Dtype-provenance abstract interpretation over forward/inverse of every Transform, log_prob of every Distribution and the "
    "spline functions: every tensor value carries the set of possible provenances of its dtype (M follows parameters/buffers/"
    "arguments and is converted by .double(); D fixed/default float -- torch.eye/zeros/linspace/tensor without dtype=, .float(), "
    ".type(torch.Tensor), tensor-valued plain attributes; I integer/bool) with torch's promotion order I < D < M. DT-MIX: a "
    "definitely-D operand next to a definitely-M operand in a same-dtype-only position (@, F.linear, matmul, mm, mv, ger, "
    "lu_solve, addmv) is reported at the operation with the call path. DT-RESULT: a returned tensor whose provenance set is {D} "
    "does not carry the dtype of the inputs. ONLY these two clauses of C19 are decided: the last sentence ('results carry the dtype "
    "of the inputs', and a double model evaluates without a dtype error) and the log-space necessary condition; float32/float64 "
    "agreement and finiteness in general are numerical analysis and are declined.",
    [A_NET, A_UMNN, T_OPS, "torch type promotion rules; inputs and parameters share one floating dtype"],
)
