"""Source-to-source normalisation applied to every module before any analysis (DESIGN 8.9).

The analyses are written for a small core of Python: assignments, if / for / while / with,
calls, comprehensions.  Clean-up PRs use more of the language -- assignment expressions,
conditional tuples, generator unpacking, zip / enumerate over written-out tuples, functools.reduce
/ partial, map with lambdas or attrgetter, operator functions, small local closures, keyword
forwarding through dict(zip(..)) / dict comprehensions, class-level constants.  Each rewrite here
replaces such a construct by core statements with the same meaning, under a side condition that is
checked syntactically; where the condition does not hold the construct is left alone (and an
engine that cannot interpret it reports "undecided", never a finding).

Nothing here looks at names or shapes particular to nflows.
"""

import ast
import copy

_COUNTER = [0]


def _fresh(base):
    _COUNTER[0] += 1
    return "%s__d%d" % (base, _COUNTER[0])


def norm_dump(n):
    return ast.dump(n, annotate_fields=False, include_attributes=False)


def _names_stored(nodes):
    out = set()
    for n in nodes:
        for x in ast.walk(n):
            if isinstance(x, ast.Name) and isinstance(x.ctx, (ast.Store, ast.Del)):
                out.add(x.id)
            elif isinstance(x, (ast.FunctionDef, ast.AsyncFunctionDef, ast.ClassDef)):
                out.add(x.name)
            elif isinstance(x, ast.arg):
                out.add(x.arg)
    return out


def _is_simple(e):
    """cheap, side-effect free, and the same object on every evaluation"""
    if isinstance(e, (ast.Constant, ast.Name)):
        return True
    if isinstance(e, ast.Attribute):
        return _is_simple(e.value)
    if isinstance(e, ast.UnaryOp) and isinstance(e.op, (ast.USub, ast.UAdd, ast.Not)):
        return _is_simple(e.operand)
    if isinstance(e, ast.Tuple):
        return all(_is_simple(x) for x in e.elts)
    return False


def _pure_number(e, depth=0):
    """a number written out: constants, arithmetic, np.* / math.* functions and constants of such"""
    if depth > 6:
        return False
    if isinstance(e, ast.Constant):
        return isinstance(e.value, (int, float)) and not isinstance(e.value, bool)
    if isinstance(e, ast.UnaryOp) and isinstance(e.op, (ast.USub, ast.UAdd)):
        return _pure_number(e.operand, depth + 1)
    if isinstance(e, ast.BinOp) and isinstance(e.op, (ast.Add, ast.Sub, ast.Mult, ast.Div, ast.Pow)):
        return _pure_number(e.left, depth + 1) and _pure_number(e.right, depth + 1)
    if isinstance(e, ast.Attribute) and isinstance(e.value, ast.Name) and e.value.id in ("np", "math", "numpy") and e.attr in ("pi", "e", "inf"):
        return True
    if isinstance(e, ast.Call) and isinstance(e.func, ast.Attribute) and isinstance(e.func.value, ast.Name) and e.func.value.id in ("np", "math", "numpy") and e.func.attr in ("log", "sqrt", "exp", "log2", "log10", "log1p", "tanh", "cos", "sin", "float64", "float32") and not e.keywords:
        return all(_pure_number(a, depth + 1) for a in e.args)
    if isinstance(e, ast.Call) and isinstance(e.func, ast.Name) and e.func.id == "float" and len(e.args) == 1 and not e.keywords:
        return _pure_number(e.args[0], depth + 1)
    return False


def _strip_float(e):
    """float(<number>) is that number"""
    while isinstance(e, ast.Call) and isinstance(e.func, ast.Name) and e.func.id == "float" and len(e.args) == 1:
        e = e.args[0]
    return e


def _callable_chain(e):
    """a conditional expression (possibly a chain) all of whose alternatives are references to functions /
    bound super() methods"""
    if isinstance(e, ast.IfExp):
        return _callable_chain(e.body) and _callable_chain(e.orelse) and not _all_none(e)
    if isinstance(e, ast.Constant) and e.value is None:
        return True  # "no function for this case": the uses test for it
    if isinstance(e, ast.Attribute) and isinstance(e.value, ast.Call) and isinstance(e.value.func, ast.Name) and e.value.func.id == "super":
        return True
    if isinstance(e, ast.Attribute) and isinstance(e.value, ast.Name) and e.value.id in ("self", "cls") and e.attr.startswith("_") and not e.attr.startswith("__"):
        return True
    return _callable_like(e) or (isinstance(e, ast.Attribute) and isinstance(e.value, ast.Name) and e.value.id in ("operator", "torch", "F", "__class__"))


def _all_none(e):
    if isinstance(e, ast.IfExp):
        return _all_none(e.body) and _all_none(e.orelse)
    return isinstance(e, ast.Constant) and e.value is None


def _has_none(e):
    if isinstance(e, ast.IfExp):
        return _has_none(e.body) or _has_none(e.orelse)
    return isinstance(e, ast.Constant) and e.value is None


def _is_set_test(e):
    """`chain is not None` as a test over the chain's own conditions"""
    if not isinstance(e, ast.IfExp):
        return ast.Constant(value=not (isinstance(e, ast.Constant) and e.value is None))
    a, b = _is_set_test(e.body), _is_set_test(e.orelse)
    t = copy.deepcopy(e.test)
    nt = ast.UnaryOp(op=ast.Not(), operand=copy.deepcopy(e.test))
    ca = a.value if isinstance(a, ast.Constant) else None
    cb = b.value if isinstance(b, ast.Constant) else None
    if ca is True and cb is True:
        return ast.Constant(value=True)
    if ca is False and cb is False:
        return ast.Constant(value=False)
    if ca is True:
        return t if cb is False else ast.BoolOp(op=ast.Or(), values=[t, b])
    if ca is False:
        return nt if cb is True else ast.BoolOp(op=ast.And(), values=[nt, b])
    if cb is True:
        return ast.BoolOp(op=ast.Or(), values=[nt, a])
    if cb is False:
        return ast.BoolOp(op=ast.And(), values=[t, a])
    return ast.BoolOp(op=ast.Or(), values=[ast.BoolOp(op=ast.And(), values=[t, a]), ast.BoolOp(op=ast.And(), values=[nt, b])])


def _callable_like(e):
    """a reference to a function: operator.gt / torch.exp / __class__.f / a plain (module-level) name"""
    if isinstance(e, ast.Attribute):
        return isinstance(e.value, ast.Name) and e.value.id in ("operator", "torch", "F", "__class__", "np", "math", "torchutils")
    return isinstance(e, ast.Name) and e.id.startswith("_")


def _simple_chain_tests(e):
    return not isinstance(e, ast.IfExp) or (_simple_test(e.test) and _simple_chain_tests(e.body) and _simple_chain_tests(e.orelse))


def _simple_test(e):
    """a test that may be evaluated earlier / more than once: names, attribute reads, `not`, identity and
    equality comparisons of such, bool(..) of such"""
    if _is_simple(e):
        return True
    if isinstance(e, ast.Compare) and len(e.ops) == 1 and isinstance(e.ops[0], (ast.Is, ast.IsNot, ast.Eq, ast.NotEq)):
        return (_is_simple(e.left) or _cheap_key(e.left)) and (_is_simple(e.comparators[0]) or _cheap_key(e.comparators[0]))
    if isinstance(e, ast.Call) and isinstance(e.func, ast.Name) and e.func.id == "bool" and len(e.args) == 1 and not e.keywords:
        return _simple_test(e.args[0])
    if isinstance(e, ast.UnaryOp) and isinstance(e.op, ast.Not):
        return _simple_test(e.operand)
    return False


def _is_pure(e):
    """built from names, constants, attribute reads, comparisons and arithmetic only (no calls)"""
    for n in ast.walk(e):
        if isinstance(n, (ast.Call, ast.Await, ast.Yield, ast.YieldFrom, ast.NamedExpr, ast.Lambda, ast.ListComp, ast.SetComp, ast.DictComp, ast.GeneratorExp, ast.Starred)):
            return False
    return True


class _Subst(ast.NodeTransformer):
    """replace loads of the given names by (copies of) expressions; stops at scopes that rebind them"""

    def __init__(self, mapping):
        self.mapping = mapping

    def visit_Name(self, n):
        if isinstance(n.ctx, ast.Load) and n.id in self.mapping:
            return ast.copy_location(copy.deepcopy(self.mapping[n.id]), n)
        return n

    def _scoped(self, node, bound):
        inner = {k: v for k, v in self.mapping.items() if k not in bound}
        if not inner:
            return node
        sub = _Subst(inner)
        for field, value in ast.iter_fields(node):
            if isinstance(value, list):
                setattr(node, field, [sub.visit(v) if isinstance(v, ast.AST) else v for v in value])
            elif isinstance(value, ast.AST):
                setattr(node, field, sub.visit(value))
        return node

    def visit_Lambda(self, n):
        bound = {a.arg for a in n.args.posonlyargs + n.args.args + n.args.kwonlyargs}
        if n.args.vararg:
            bound.add(n.args.vararg.arg)
        if n.args.kwarg:
            bound.add(n.args.kwarg.arg)
        return self._scoped(n, bound)

    def _comp(self, n):
        bound = set()
        for g in n.generators:
            bound |= _names_stored([g.target])
        # the first iterable is evaluated in the enclosing scope
        first = self.visit(n.generators[0].iter)
        node = self._scoped(n, bound)
        node.generators[0].iter = first if not bound & set(self.mapping) else node.generators[0].iter
        return node

    visit_ListComp = visit_SetComp = visit_GeneratorExp = visit_DictComp = _comp

    def visit_FunctionDef(self, n):
        return n


def subst(node, mapping):
    return _Subst(mapping).visit(copy.deepcopy(node))


# ---------------------------------------------------------------------------------------------
# expression-level rewrites (bottom-up)
# ---------------------------------------------------------------------------------------------

_OPERATOR_BIN = {"add": ast.Add, "sub": ast.Sub, "mul": ast.Mult, "truediv": ast.Div, "floordiv": ast.FloorDiv, "mod": ast.Mod, "pow": ast.Pow, "matmul": ast.MatMult, "and_": ast.BitAnd, "or_": ast.BitOr, "xor": ast.BitXor}
_OPERATOR_CMP = {"gt": ast.Gt, "ge": ast.GtE, "lt": ast.Lt, "le": ast.LtE, "eq": ast.Eq, "ne": ast.NotEq, "is_": ast.Is, "is_not": ast.IsNot}
_OPERATOR_UN = {"neg": ast.USub, "pos": ast.UAdd, "not_": ast.Not, "invert": ast.Invert, "inv": ast.Invert}


def _dotted(e):
    parts = []
    while isinstance(e, ast.Attribute):
        parts.append(e.attr)
        e = e.value
    if isinstance(e, ast.Name):
        parts.append(e.id)
        return ".".join(reversed(parts))
    return None


_MODULE_NUMBERS = {}


class _Expr(ast.NodeTransformer):
    """getattr(o, "c") -> o.c ; operator.f(a, b) -> a <op> b ; (f if c else g)(args) -> f(args) if c else g(args) ;
    (lambda p: E)(args) -> E[p := args] ; map(f, S) -> (f(t) for t in S) ; f(**dict(zip(names, values))) ->
    f(name=value, ..) ; f(**{k: E for k in consts}) -> f(k1=E1, ..) ; self.CONST -> the class-level literal"""

    def __init__(self, imported_operator_names=(), class_consts=None, module_tables=None, class_tables=None, class_fns=(), class_name=None, kw_helpers=None):
        self.kw_helpers = kw_helpers or {}
        self.opnames = set(imported_operator_names)
        self.class_consts = class_consts or {}
        self.module_tables = module_tables or {}
        self.class_tables = class_tables or {}
        self.class_fns = set(class_fns)
        self.class_name = class_name

    def visit_Subscript(self, node):
        self.generic_visit(node)
        if not isinstance(node.ctx, ast.Load):
            return node
        table, fns = None, ()
        v = node.value
        if isinstance(v, ast.Dict) and "x" in _literal_tables([ast.Assign(targets=[ast.Name(id="x", ctx=ast.Store())], value=v)], {"x": 1}) and all(_is_pure(x) or isinstance(x, ast.Lambda) for x in v.values):
            # a table written at its only use: {False: a, True: b}[bool(c)]  (the entries not chosen are
            # pure reads: nothing is lost by not evaluating them)
            table = v
        elif isinstance(v, ast.Name) and v.id in self.module_tables:
            table = self.module_tables[v.id]
        elif isinstance(v, ast.Attribute) and isinstance(v.value, ast.Name) and v.value.id in ("self", "cls", self.class_name) and v.attr in self.class_tables:
            table, fns = self.class_tables[v.attr], self.class_fns
        # TABLE[self._case(x)] with _case a method that only names the case: the case distinction itself
        k = node.slice
        if table is not None and isinstance(k, ast.Call) and isinstance(k.func, ast.Attribute) and isinstance(k.func.value, ast.Name) and k.func.value.id == "self" and len(self.kw_helpers.get(k.func.attr, ())) == 3 and not k.keywords and all(_is_simple(a) for a in k.args):
            params, expr, _ = self.kw_helpers[k.func.attr]
            if len(params) == len(k.args):
                chosen = subst(expr, dict(zip(params, k.args)))
                keys = {kk.value: vv for kk, vv in zip(table.keys, table.values)}

                def pick(e):
                    if isinstance(e, ast.IfExp):
                        a, b = pick(e.body), pick(e.orelse)
                        if a is None or b is None:
                            return None
                        r = ast.IfExp(test=e.test, body=a, orelse=b)
                        r._from_callee = True
                        return r
                    if e.value not in keys or type(e.value) not in {type(x) for x in keys if x == e.value}:
                        return None
                    return _table_lookup(ast.Dict(keys=[ast.Constant(value=e.value)], values=[keys[e.value]]), e, fns)

                r = pick(chosen)
                if r is not None:
                    return ast.fix_missing_locations(ast.copy_location(r, node))
        if table is not None and not isinstance(node.slice, (ast.Slice, ast.Tuple)) and _cheap_key(node.slice):
            return ast.fix_missing_locations(ast.copy_location(_table_lookup(table, node.slice, fns), node))
        return node

    def visit_ListComp(self, node):
        self.generic_visit(node)
        # [E(t) for t in (a, b, c)] -> [E(a), E(b), E(c)]
        if len(node.generators) == 1:
            g = node.generators[0]
            if not g.ifs and not g.is_async and isinstance(g.target, (ast.Name, ast.Tuple)):
                items = _literal_items(g.iter)
                if items is not None and 0 < len(items) <= 8:
                    elts = []
                    for it in items:
                        mapping = {}
                        if isinstance(g.target, ast.Name):
                            mapping[g.target.id] = it
                        elif isinstance(it, (ast.Tuple, ast.List)) and len(it.elts) == len(g.target.elts) and all(isinstance(x, ast.Name) for x in g.target.elts):
                            mapping = {x.id: v for x, v in zip(g.target.elts, it.elts)}
                        else:
                            return node
                        for nm, v in mapping.items():
                            uses = sum(1 for x in ast.walk(node.elt) if isinstance(x, ast.Name) and x.id == nm and isinstance(x.ctx, ast.Load))
                            if not (_is_simple(v) or isinstance(v, ast.Lambda) or (uses <= 1 and _is_pure(v))):
                                return node
                        elts.append(self.visit(subst(node.elt, mapping)))
                    return ast.copy_location(ast.List(elts=elts, ctx=ast.Load()), node)
        return node

    def visit_Compare(self, node):
        self.generic_visit(node)
        # k in TABLE / k not in TABLE: membership in the written-out keys
        if len(node.ops) == 1 and isinstance(node.ops[0], (ast.In, ast.NotIn)):
            v = node.comparators[0]
            table = None
            if isinstance(v, ast.Name) and v.id in self.module_tables:
                table = self.module_tables[v.id]
            elif isinstance(v, ast.Attribute) and isinstance(v.value, ast.Name) and v.value.id in ("self", "cls", self.class_name) and v.attr in self.class_tables:
                table = self.class_tables[v.attr]
            if table is not None:
                node.comparators = [ast.copy_location(ast.Tuple(elts=[copy.deepcopy(k) for k in table.keys], ctx=ast.Load()), v)]
        return node

    def visit_Name(self, node):
        if isinstance(node.ctx, ast.Load) and node.id in _MODULE_NUMBERS:
            return ast.copy_location(copy.deepcopy(_MODULE_NUMBERS[node.id]), node)
        return node

    def visit_Attribute(self, node):
        self.generic_visit(node)
        if isinstance(node.ctx, ast.Load) and isinstance(node.value, ast.Name) and node.value.id in ("self", "cls") and node.attr in self.class_consts:
            return ast.copy_location(copy.deepcopy(self.class_consts[node.attr]), node)
        return node

    def _operator_fn(self, f):
        d = _dotted(f)
        if d is None:
            return None
        if d.startswith("operator."):
            return d[len("operator."):]
        if d in self.opnames:
            return d
        return None

    def visit_Call(self, node):
        self.generic_visit(node)
        f = node.func
        # a function of the class body taken from a class-level table and called with the object first
        if isinstance(f, ast.Attribute) and isinstance(f.value, ast.Name) and f.value.id == "__class__" and node.args and isinstance(node.args[0], ast.Name) and node.args[0].id == "self":
            node.func = ast.copy_location(ast.Attribute(value=ast.Name(id="self", ctx=ast.Load()), attr=f.attr, ctx=ast.Load()), f)
            node.args = node.args[1:]
            return node
        # torch.Tensor.f(x, a): the method called through the class
        if isinstance(f, ast.Attribute) and isinstance(f.value, ast.Attribute) and f.value.attr == "Tensor" and isinstance(f.value.value, ast.Name) and f.value.value.id == "torch" and node.args and not isinstance(node.args[0], ast.Starred):
            node.func = ast.copy_location(ast.Attribute(value=node.args[0], attr=f.attr, ctx=ast.Load()), f)
            node.args = node.args[1:]
            f = node.func
        # tensor arithmetic / comparisons / logic spelled as functions or (out-of-place) methods -> operators;
        # x.index_select(d, idx) -> x[:, .., idx]
        r = _tensor_operator_form(node)
        if r is not None:
            return ast.fix_missing_locations(ast.copy_location(r, node))
        # f(*(a, b)) -> f(a, b)
        if any(isinstance(a, ast.Starred) and isinstance(a.value, (ast.Tuple, ast.List)) and not any(isinstance(x, ast.Starred) for x in a.value.elts) for a in node.args):
            new = []
            for a in node.args:
                if isinstance(a, ast.Starred) and isinstance(a.value, (ast.Tuple, ast.List)) and not any(isinstance(x, ast.Starred) for x in a.value.elts):
                    new.extend(a.value.elts)
                else:
                    new.append(a)
            node.args = new
        # list((a, b)) -> [a, b]
        if isinstance(f, ast.Name) and f.id in ("list", "tuple") and len(node.args) == 1 and not node.keywords and isinstance(node.args[0], (ast.Tuple, ast.List)) and not any(isinstance(x, ast.Starred) for x in node.args[0].elts):
            cls_ = ast.List if f.id == "list" else ast.Tuple
            return ast.copy_location(cls_(elts=list(node.args[0].elts), ctx=ast.Load()), node)
        # tuple(E(t) for t in (a, b)) -> (E(a), E(b))
        if isinstance(f, ast.Name) and f.id in ("tuple", "list") and len(node.args) == 1 and not node.keywords and isinstance(node.args[0], (ast.GeneratorExp, ast.ListComp)) and len(node.args[0].generators) == 1:
            g = node.args[0].generators[0]
            items = _literal_items(g.iter)
            if items is not None and 0 < len(items) <= 8 and not g.ifs and isinstance(g.target, ast.Name):
                uses = sum(1 for x in ast.walk(node.args[0].elt) if isinstance(x, ast.Name) and x.id == g.target.id and isinstance(x.ctx, ast.Load))
                if all(_is_simple(it) or (uses <= 1 and _is_pure(it)) for it in items):
                    elts = [self.visit(subst(node.args[0].elt, {g.target.id: it})) for it in items]
                    cls_ = ast.Tuple if f.id == "tuple" else ast.List
                    return ast.copy_location(cls_(elts=elts, ctx=ast.Load()), node)
        # getattr(obj, "name")
        if isinstance(f, ast.Name) and f.id == "getattr" and len(node.args) == 2 and not node.keywords and isinstance(node.args[1], ast.Constant) and isinstance(node.args[1].value, str) and node.args[1].value.isidentifier():
            return ast.copy_location(ast.Attribute(value=node.args[0], attr=node.args[1].value, ctx=ast.Load()), node)
        # operator functions
        op = self._operator_fn(f)
        if op is not None and not node.keywords and not any(isinstance(a, ast.Starred) for a in node.args):
            if op in _OPERATOR_BIN and len(node.args) == 2:
                return ast.copy_location(ast.BinOp(left=node.args[0], op=_OPERATOR_BIN[op](), right=node.args[1]), node)
            if op in _OPERATOR_CMP and len(node.args) == 2:
                return ast.copy_location(ast.Compare(left=node.args[0], ops=[_OPERATOR_CMP[op]()], comparators=[node.args[1]]), node)
            if op in _OPERATOR_UN and len(node.args) == 1:
                return ast.copy_location(ast.UnaryOp(op=_OPERATOR_UN[op](), operand=node.args[0]), node)
            if op == "getitem" and len(node.args) == 2:
                return ast.copy_location(ast.Subscript(value=node.args[0], slice=node.args[1], ctx=ast.Load()), node)
        # a conditional callee
        if isinstance(f, ast.IfExp):
            a = ast.Call(func=f.body, args=copy.deepcopy(node.args), keywords=copy.deepcopy(node.keywords))
            b = ast.Call(func=f.orelse, args=copy.deepcopy(node.args), keywords=copy.deepcopy(node.keywords))
            out = ast.IfExp(test=f.test, body=self.visit_Call(ast.copy_location(a, node)), orelse=self.visit_Call(ast.copy_location(b, node)))
            out._from_callee = True
            return ast.copy_location(out, node)
        # an immediately applied lambda
        if isinstance(f, ast.Lambda):
            r = _beta(f, node)
            if r is not None:
                return self.visit(ast.copy_location(r, node))
        # map(f, S)
        if isinstance(f, ast.Name) and f.id == "map" and len(node.args) == 2 and not node.keywords:
            fn, seq = node.args
            t = _fresh("t")
            elt = None
            if isinstance(fn, ast.Lambda):
                call = ast.Call(func=fn, args=[ast.Name(id=t, ctx=ast.Load())], keywords=[])
                elt = _beta(fn, call)
            elif isinstance(fn, ast.Call) and _dotted(fn.func) in ("attrgetter", "operator.attrgetter") and len(fn.args) == 1 and isinstance(fn.args[0], ast.Constant) and isinstance(fn.args[0].value, str) and fn.args[0].value.isidentifier():
                elt = ast.Attribute(value=ast.Name(id=t, ctx=ast.Load()), attr=fn.args[0].value, ctx=ast.Load())
            elif isinstance(fn, ast.Call) and _dotted(fn.func) in ("itemgetter", "operator.itemgetter") and len(fn.args) == 1:
                elt = ast.Subscript(value=ast.Name(id=t, ctx=ast.Load()), slice=fn.args[0], ctx=ast.Load())
            elif _is_simple(fn):
                elt = ast.Call(func=fn, args=[ast.Name(id=t, ctx=ast.Load())], keywords=[])
            if elt is not None:
                g = ast.GeneratorExp(elt=elt, generators=[ast.comprehension(target=ast.Name(id=t, ctx=ast.Store()), iter=seq, ifs=[], is_async=0)])
                return ast.fix_missing_locations(ast.copy_location(g, node))
        # keyword forwarding through a method of the class that chooses between literal mappings:
        # f(a, **self._kwargs(c))  with  def _kwargs(self, c): if self.flag: return {"k": c}; return {}
        for k in node.keywords:
            if k.arg is None and isinstance(k.value, ast.Call) and isinstance(k.value.func, ast.Attribute) and isinstance(k.value.func.value, ast.Name) and k.value.func.value.id == "self" and len(self.kw_helpers.get(k.value.func.attr, ())) == 2 and not k.value.keywords and all(_is_simple(a) for a in k.value.args):
                params, expr = self.kw_helpers[k.value.func.attr]
                if len(params) != len(k.value.args) or isinstance(node.func, ast.IfExp):
                    continue
                chosen = subst(expr, dict(zip(params, k.value.args)))

                def spread(e, k=k):
                    if isinstance(e, ast.IfExp):
                        r = ast.IfExp(test=e.test, body=spread(e.body), orelse=spread(e.orelse))
                        r._from_callee = True
                        return r
                    c = ast.Call(func=copy.deepcopy(node.func), args=copy.deepcopy(node.args), keywords=[copy.deepcopy(x) if x is not k else ast.keyword(arg=None, value=e) for x in node.keywords])
                    return self.visit_Call(ast.copy_location(c, node))

                if isinstance(chosen, ast.IfExp):
                    return ast.fix_missing_locations(ast.copy_location(spread(chosen), node))
                k.value = chosen
        # keyword forwarding through a literal mapping
        if any(k.arg is None for k in node.keywords):
            kws = []
            changed = False
            for k in node.keywords:
                if k.arg is not None:
                    kws.append(k)
                    continue
                pairs = _literal_mapping(k.value)
                if pairs is None:
                    kws.append(k)
                else:
                    changed = True
                    kws.extend(ast.keyword(arg=name, value=value) for name, value in pairs)
            if changed:
                node.keywords = kws
        return node


_T_BIN = {"add": ast.Add, "sub": ast.Sub, "subtract": ast.Sub, "mul": ast.Mult, "multiply": ast.Mult, "div": ast.Div, "true_divide": ast.Div, "divide": ast.Div, "matmul": ast.MatMult}
_T_CMP = {"ge": ast.GtE, "gt": ast.Gt, "le": ast.LtE, "lt": ast.Lt, "eq": ast.Eq, "ne": ast.NotEq, "greater_equal": ast.GtE, "greater": ast.Gt, "less_equal": ast.LtE, "less": ast.Lt, "not_equal": ast.NotEq}
_T_LOGIC = {"logical_and": ast.BitAnd, "logical_or": ast.BitOr}
_T_UNARY = {"exp", "log", "log1p", "log2", "log10", "abs", "sqrt", "rsqrt", "sigmoid", "tanh", "reciprocal", "sign", "square", "expm1", "floor", "ceil", "diag", "atan", "sin", "cos", "erf"}


def _tensor_operator_form(call):
    """the operator spelling of torch.mul(a, b) / a.mul(b) / torch.ge(a, b) / torch.logical_and(a, b) /
    torch.logical_not(a) / torch.neg(a) / a.index_select(d, idx); None for anything else.  Only the
    out-of-place forms without extra arguments (alpha=, out=, rounding_mode=) are rewritten."""
    f = call.func
    if not isinstance(f, ast.Attribute) or call.keywords and not (f.attr == "index_select"):
        return None
    is_mod = isinstance(f.value, ast.Name) and f.value.id == "torch"
    if isinstance(f.value, ast.Name) and f.value.id in ("np", "math", "operator", "F", "nn", "init", "check", "torchutils", "typechecks", "warnings", "itertools", "functools"):
        return None
    args = list(call.args) if is_mod else [f.value] + list(call.args)
    if any(isinstance(a, ast.Starred) for a in args):
        return None
    name = f.attr
    if name in _T_BIN and len(args) == 2:
        return ast.BinOp(left=args[0], op=_T_BIN[name](), right=args[1])
    if name in _T_CMP and len(args) == 2:
        return ast.Compare(left=args[0], ops=[_T_CMP[name]()], comparators=[args[1]])
    if name in _T_LOGIC and len(args) == 2 and is_mod:
        return ast.BinOp(left=args[0], op=_T_LOGIC[name](), right=args[1])
    if name == "logical_not" and len(args) == 1 and is_mod:
        return ast.UnaryOp(op=ast.Invert(), operand=args[0])
    if name in ("neg", "negative") and len(args) == 1:
        return ast.UnaryOp(op=ast.USub(), operand=args[0])
    if name in _T_UNARY and len(args) == 1 and not is_mod and not call.keywords:
        # x.exp() -> torch.exp(x): the spelling the repository uses throughout
        return ast.Call(func=ast.Attribute(value=ast.Name(id="torch", ctx=ast.Load()), attr=name, ctx=ast.Load()), args=[args[0]], keywords=[])
    if name in ("addcmul", "addcdiv") and len(args) == 3:
        # a + b * c  /  a + b / c   (value=1)
        return ast.BinOp(left=args[0], op=ast.Add(), right=ast.BinOp(left=args[1], op=ast.Mult() if name == "addcmul" else ast.Div(), right=args[2]))
    if name == "index_select":
        kw = {k.arg: k.value for k in call.keywords}
        if len(args) == 3 and not kw:
            x, d, idx = args
        elif len(args) == 1 and set(kw) == {"dim", "index"}:
            x, d, idx = args[0], kw["dim"], kw["index"]
        elif len(args) == 2 and set(kw) == {"index"}:
            x, d, idx = args[0], args[1], kw["index"]
        else:
            return None
        if isinstance(d, ast.Constant) and isinstance(d.value, int) and not isinstance(d.value, bool) and 0 <= d.value <= 4:
            full = [ast.Slice(lower=None, upper=None, step=None) for _ in range(d.value)]
            sl = ast.Tuple(elts=full + [idx], ctx=ast.Load()) if full else idx
            return ast.Subscript(value=x, slice=sl, ctx=ast.Load())
    return None


def _literal_seq(e):
    """the elements of a written-out tuple / list, through `* k` and `+`"""
    if isinstance(e, (ast.Tuple, ast.List)) and not any(isinstance(x, ast.Starred) for x in e.elts):
        return list(e.elts)
    if isinstance(e, ast.BinOp) and isinstance(e.op, ast.Mult):
        for seq, k in ((e.left, e.right), (e.right, e.left)):
            items = _literal_seq(seq)
            if items is not None and isinstance(k, ast.Constant) and isinstance(k.value, int) and not isinstance(k.value, bool) and 0 <= k.value <= 8 and all(_is_simple(x) or isinstance(x, ast.UnaryOp) and _is_simple(x.operand) for x in items):
                return [copy.deepcopy(x) for _ in range(k.value) for x in items]
    if isinstance(e, ast.BinOp) and isinstance(e.op, ast.Add):
        a, b = _literal_seq(e.left), _literal_seq(e.right)
        if a is not None and b is not None:
            return a + b
    return None


def _literal_mapping(e):
    """[(name, value expr)] of dict(zip(("a","b"), (x, y))) / {"a": x, ..} / {k: E for k in ("a","b")} / dict(a=x)"""
    if isinstance(e, ast.Dict) and all(isinstance(k, ast.Constant) and isinstance(k.value, str) and k.value.isidentifier() for k in e.keys):
        return [(k.value, v) for k, v in zip(e.keys, e.values)]
    if isinstance(e, ast.Call) and isinstance(e.func, ast.Name) and e.func.id == "dict":
        if not e.args and all(k.arg for k in e.keywords):
            return [(k.arg, k.value) for k in e.keywords]
        if len(e.args) == 1 and not e.keywords and isinstance(e.args[0], ast.Call) and isinstance(e.args[0].func, ast.Name) and e.args[0].func.id == "zip" and len(e.args[0].args) == 2:
            ks, vs = _literal_seq(e.args[0].args[0]), _literal_seq(e.args[0].args[1])
            if ks is not None and vs is not None and len(ks) == len(vs) and all(isinstance(k, ast.Constant) and isinstance(k.value, str) and k.value.isidentifier() for k in ks):
                return [(k.value, v) for k, v in zip(ks, vs)]
    if isinstance(e, ast.DictComp) and len(e.generators) == 1 and not e.generators[0].ifs and isinstance(e.generators[0].target, ast.Name):
        it = e.generators[0].iter
        t = e.generators[0].target.id
        if isinstance(it, (ast.Tuple, ast.List)) and it.elts and all(isinstance(k, ast.Constant) and isinstance(k.value, str) and k.value.isidentifier() for k in it.elts) and isinstance(e.key, ast.Name) and e.key.id == t:
            out = []
            for k in it.elts:
                v = _Expr().visit(subst(e.value, {t: k}))
                out.append((k.value, v))
            return out
    return None


def _beta(lam, call):
    """E[params := args] for (lambda params: E)(args), or None when that would duplicate or reorder work"""
    a = lam.args
    if a.vararg or a.kwarg or a.kwonlyargs or any(isinstance(x, ast.Starred) for x in call.args) or any(k.arg is None for k in call.keywords):
        return None
    params = [p.arg for p in a.posonlyargs + a.args]
    defaults = dict(zip(params[len(params) - len(a.defaults):], a.defaults))
    bound = {}
    if len(call.args) > len(params):
        return None
    for p, v in zip(params, call.args):
        bound[p] = v
    for k in call.keywords:
        if k.arg not in params or k.arg in bound:
            return None
        bound[k.arg] = k.value
    for p in params:
        if p not in bound:
            if p not in defaults:
                return None
            bound[p] = defaults[p]
    uses = {}
    for n in ast.walk(lam.body):
        if isinstance(n, ast.Name) and isinstance(n.ctx, ast.Load) and n.id in bound:
            uses[n.id] = uses.get(n.id, 0) + 1
    for p, v in bound.items():
        if not _is_simple(v) and uses.get(p, 0) > 1:
            return None
    return subst(lam.body, bound)


# ---------------------------------------------------------------------------------------------
# NamedTuples used as plain records, and literal lookup tables
# ---------------------------------------------------------------------------------------------


def _names_stored_toplevel(stmts):
    counts = {}
    for st in stmts:
        for n in _names_stored([st]) if not isinstance(st, (ast.FunctionDef, ast.ClassDef)) else [st.name]:
            counts[n] = counts.get(n, 0) + 1
    return counts


def _literal_tables(stmts, counts):
    """NAME = {const: expr, ..} written once at this level, with <= 6 constant keys"""
    out = {}
    for st in stmts:
        if isinstance(st, ast.Assign) and len(st.targets) == 1 and isinstance(st.targets[0], ast.Name) and isinstance(st.value, ast.Dict) and 0 < len(st.value.keys) <= 6:
            if counts.get(st.targets[0].id, 0) != 1:
                continue
            if all(isinstance(k, ast.Constant) and isinstance(k.value, (bool, str, int)) or (isinstance(k, ast.Constant) and k.value is None) for k in st.value.keys):
                out[st.targets[0].id] = st.value
    return out


def _table_lookup(table, key, class_fns=()):
    """TABLE[key] as a chain of conditional expressions over the written-out keys (the last entry is the
    default: a key outside the table raises KeyError in the original, which no analysis here models)"""
    keys, vals = list(table.keys), list(table.values)

    def val(v):
        v = copy.deepcopy(v)

        class Fn(ast.NodeTransformer):
            def visit_Name(self, n):
                if isinstance(n.ctx, ast.Load) and n.id in class_fns:
                    return ast.copy_location(ast.Attribute(value=ast.Name(id="__class__", ctx=ast.Load()), attr=n.id, ctx=ast.Load()), n)
                return n

        return Fn().visit(v)

    if all(isinstance(k.value, bool) for k in keys) and len(keys) == 2:
        t = next(v for k, v in zip(keys, vals) if k.value is True)
        f = next(v for k, v in zip(keys, vals) if k.value is False)
        test = copy.deepcopy(key)
        if isinstance(test, ast.Call) and isinstance(test.func, ast.Name) and test.func.id == "bool" and len(test.args) == 1 and not test.keywords:
            test = test.args[0]  # a test takes the truth of its operand anyway
        out = ast.IfExp(test=test, body=val(t), orelse=val(f))
        out._from_callee = True
        return out
    out = val(vals[-1])
    for k, v in reversed(list(zip(keys, vals))[:-1]):
        test = ast.Compare(left=copy.deepcopy(key), ops=[ast.Eq()], comparators=[copy.deepcopy(k)])
        out = ast.IfExp(test=test, body=val(v), orelse=out)
        out._from_callee = True
    return out


def _return_chain(stmts):
    """the value of a body that only chooses what to return: if c: return A / elif .. / return B  ->  A if c else B"""
    stmts = [x for x in stmts if not (isinstance(x, ast.Expr) and isinstance(x.value, ast.Constant))]
    if not stmts:
        return None
    s = stmts[0]
    if isinstance(s, ast.Return):
        return s.value
    if isinstance(s, ast.If) and _simple_test(s.test):
        a = _return_chain(s.body)
        b = _return_chain(s.orelse) if s.orelse else _return_chain(stmts[1:])
        if a is None or b is None:
            return None
        return ast.IfExp(test=s.test, body=a, orelse=b)
    return None


def _kw_helpers(cls):
    """methods of a class that only choose between literal keyword mappings"""
    out = {}
    for m in cls.body:
        if isinstance(m, ast.FunctionDef) and not m.decorator_list and m.args.args and m.args.args[0].arg == "self" and not (m.args.vararg or m.args.kwarg or m.args.kwonlyargs or m.args.defaults):
            e = _return_chain(m.body)
            if e is None:
                continue
            leaves = []

            def collect(x):
                if isinstance(x, ast.IfExp):
                    collect(x.body)
                    collect(x.orelse)
                else:
                    leaves.append(x)

            collect(e)
            if all(_literal_mapping(x) is not None for x in leaves):
                out[m.name] = ([a.arg for a in m.args.args[1:]], e)
            elif all(isinstance(x, ast.Constant) and isinstance(x.value, (str, bool, int)) for x in leaves) and len(leaves) > 1:
                # a method that only names the case at hand: if c: return "a" / return "b"
                out[m.name] = ([a.arg for a in m.args.args[1:]], e, "tags")
    return out


def _iterated_later(fn, name):
    """is the local `name` used as the iterable of a loop / comprehension (directly or through zip / enumerate /
    reversed) somewhere in the function?"""
    def mentions(it):
        if isinstance(it, ast.Name):
            return it.id == name
        if isinstance(it, ast.Call) and isinstance(it.func, ast.Name) and it.func.id in ("zip", "enumerate", "reversed", "list", "tuple", "iter"):
            return any(mentions(a) for a in it.args)
        return False

    for n in ast.walk(fn):
        if isinstance(n, ast.For) and mentions(n.iter):
            return True
        if isinstance(n, ast.comprehension) and mentions(n.iter):
            return True
    return False


def _param_lens(cls):
    """{private method: {parameter: n}} where every call self.m(..) in the class body passes, for that parameter,
    a written-out tuple of length n (or a local that is only ever bound to written-out tuples of length n)"""
    methods = {m.name: m for m in cls.body if isinstance(m, ast.FunctionDef)}
    seen = {}
    for caller in methods.values():
        local_lens = {}
        bad = set()
        for a in ast.walk(caller):
            if isinstance(a, ast.Assign):
                for t in a.targets:
                    for x in ast.walk(t):
                        if isinstance(x, ast.Name):
                            if isinstance(t, ast.Name) and isinstance(a.value, ast.Tuple) and not any(isinstance(e, ast.Starred) for e in a.value.elts):
                                if local_lens.setdefault(x.id, len(a.value.elts)) != len(a.value.elts):
                                    bad.add(x.id)
                            else:
                                bad.add(x.id)
            elif isinstance(a, (ast.AugAssign, ast.For, ast.With, ast.NamedExpr, ast.comprehension)):
                t = a.target if hasattr(a, "target") else None
                if t is not None:
                    bad |= {x.id for x in ast.walk(t) if isinstance(x, ast.Name)}
        params_of_caller = {x.arg for x in caller.args.args + caller.args.kwonlyargs}
        for n in ast.walk(caller):
            if isinstance(n, ast.Call) and isinstance(n.func, ast.Attribute) and isinstance(n.func.value, ast.Name) and n.func.value.id == "self" and n.func.attr in methods and n.func.attr.startswith("_") and not n.func.attr.startswith("__"):
                m = methods[n.func.attr]
                names = [a.arg for a in m.args.args[1:]]
                got = {}
                if any(isinstance(a, ast.Starred) for a in n.args) or any(k.arg is None for k in n.keywords):
                    seen.setdefault(m.name, {})["<any>"] = None
                    continue
                for nm, a in list(zip(names, n.args)) + [(k.arg, k.value) for k in n.keywords]:
                    if isinstance(a, ast.Tuple) and not any(isinstance(e, ast.Starred) for e in a.elts):
                        got[nm] = len(a.elts)
                    elif isinstance(a, ast.Name) and a.id in local_lens and a.id not in bad and a.id not in params_of_caller:
                        got[nm] = local_lens[a.id]
                    else:
                        got[nm] = None
                rec = seen.setdefault(m.name, {})
                for nm in names:
                    v = got.get(nm)
                    if nm in rec and rec[nm] != v:
                        rec[nm] = None
                    elif nm not in rec:
                        rec[nm] = v
    out = {}
    for mname, rec in seen.items():
        if "<any>" in rec:
            continue
        # the method must not be referenced other than by being called on self (no callbacks / aliases)
        refs = [x for x in ast.walk(cls) if isinstance(x, ast.Attribute) and x.attr == mname]
        calls = {id(x.func) for x in ast.walk(cls) if isinstance(x, ast.Call)}
        if any(id(r) not in calls for r in refs):
            continue
        lens = {k: v for k, v in rec.items() if v}
        if lens:
            out[mname] = lens
    return out


def _cheap_key(e):
    """may the key expression be written out more than once? (pure reads, tests on them, bool(..), or a call
    of a private helper of the object with such arguments)"""
    if _is_pure(e):
        return True
    if isinstance(e, ast.Call):
        f = e.func
        if isinstance(f, ast.Name) and f.id in ("bool", "len") and len(e.args) == 1 and not e.keywords:
            return _cheap_key(e.args[0])
        if isinstance(f, ast.Attribute) and f.attr in ("dim", "ndimension") and not e.args and not e.keywords and _is_pure(f.value):
            return True
        if isinstance(f, ast.Attribute) and isinstance(f.value, ast.Name) and f.value.id in ("self", "cls") and f.attr.startswith("_") and all(_is_pure(a) for a in e.args) and not e.keywords:
            return True
    return False


def _eliminate_namedtuples(tree):
    """module-level `class R(NamedTuple): a: T; b: T` used as a record: R(x, y) -> (x, y), r.a -> r[0]
    for locals bound to such a record (directly, or through a function of the module that returns one);
    read-only properties defined on the record are expanded.  Records with other methods are left alone."""
    nts = {}
    nt_methods = {}
    hoisted = {}
    for st in tree.body:
        if isinstance(st, ast.ClassDef) and any((isinstance(b, ast.Name) and b.id == "NamedTuple") or (isinstance(b, ast.Attribute) and b.attr == "NamedTuple") for b in st.bases):
            fields, defaults, props, methods, ok = [], {}, {}, {}, True
            for m in st.body:
                if isinstance(m, ast.Expr) and isinstance(m.value, ast.Constant):
                    continue
                if isinstance(m, ast.AnnAssign) and isinstance(m.target, ast.Name):
                    fields.append(m.target.id)
                    if m.value is not None:
                        defaults[m.target.id] = m.value
                elif isinstance(m, ast.FunctionDef) and len(m.decorator_list) == 1 and isinstance(m.decorator_list[0], ast.Name) and m.decorator_list[0].id == "property":
                    body = [x for x in m.body if not (isinstance(x, ast.Expr) and isinstance(x.value, ast.Constant))]
                    if len(body) == 1 and isinstance(body[0], ast.Return) and body[0].value is not None and len(m.args.args) == 1:
                        props[m.name] = (m.args.args[0].arg, m)
                    else:
                        ok = False
                elif isinstance(m, ast.FunctionDef) and len(m.decorator_list) == 1 and isinstance(m.decorator_list[0], ast.Name) and m.decorator_list[0].id in ("classmethod", "staticmethod") and not m.name.startswith("__"):
                    hoisted.setdefault(st.name, []).append(m)
                elif isinstance(m, ast.FunctionDef) and not m.decorator_list and m.args.args and not (m.args.vararg or m.args.kwarg or m.args.kwonlyargs or m.args.defaults) and not m.name.startswith("__"):
                    # a method that only returns an expression of the fields and its arguments
                    body = [x for x in m.body if not (isinstance(x, ast.Expr) and isinstance(x.value, ast.Constant))]
                    if len(body) == 1 and isinstance(body[0], ast.Return) and body[0].value is not None:
                        methods[m.name] = m
                    else:
                        ok = False
                else:
                    ok = False
            if ok and fields:
                nts[st.name] = (fields, defaults, props)
                nt_methods[st.name] = methods
    if not nts:
        return tree
    # alternative constructors / helpers (classmethods, staticmethods) of a record become private functions of
    # the module, R.f(..) -> _R__f(..): they have nothing of the class but its name
    new_funcs = []
    renames = {}
    for cname, ms in hoisted.items():
        if cname not in nts:
            continue
        for m in ms:
            is_cls = m.decorator_list[0].id == "classmethod"
            if is_cls and not m.args.args:
                continue
            f = copy.deepcopy(m)
            f.decorator_list = []
            f.name = "_%s__%s" % (cname.lstrip("_"), m.name)
            if is_cls:
                clsname = f.args.args[0].arg
                f.args.args = f.args.args[1:]

                class C(ast.NodeTransformer):
                    def visit_Name(self, n):
                        if n.id == clsname and isinstance(n.ctx, ast.Load):
                            return ast.copy_location(ast.Name(id=cname, ctx=ast.Load()), n)
                        return n

                f = C().visit(f)
            renames[(cname, m.name)] = f.name
            new_funcs.append((cname, f))
    if new_funcs:
        class Calls(ast.NodeTransformer):
            def visit_Attribute(self, n):
                self.generic_visit(n)
                if isinstance(n.value, ast.Name) and (n.value.id, n.attr) in renames and isinstance(n.ctx, ast.Load):
                    return ast.copy_location(ast.Name(id=renames[(n.value.id, n.attr)], ctx=ast.Load()), n)
                return n

        tree = Calls().visit(tree)
        body = []
        for st in tree.body:
            body.append(st)
            if isinstance(st, ast.ClassDef):
                body.extend(ast.fix_missing_locations(f) for c, f in new_funcs if c == st.name)
        tree.body = body

    def record(call):
        """the tuple display a constructor call stands for, or None"""
        f = call.func
        name = f.id if isinstance(f, ast.Name) else None
        make = False
        if name is None and isinstance(f, ast.Attribute) and f.attr == "_make" and isinstance(f.value, ast.Name) and f.value.id in nts:
            name, make = f.value.id, True
        if name not in nts:
            return None, None
        if make:
            return ("make", name), call.args[0] if len(call.args) == 1 and not call.keywords else None
        fields, defaults, _ = nts[name]
        if len(call.args) == 1 and isinstance(call.args[0], ast.Starred) and not call.keywords:
            # R(*seq): the sequence itself (it must have exactly the record's length), known to be a record
            return ("make", name), call.args[0].value
        if any(isinstance(a, ast.Starred) for a in call.args) or any(k.arg is None for k in call.keywords) or len(call.args) > len(fields):
            return None, None
        vals = dict(zip(fields, call.args))
        for k in call.keywords:
            if k.arg not in fields or k.arg in vals:
                return None, None
            vals[k.arg] = k.value
        for fld in fields:
            if fld not in vals:
                if fld not in defaults:
                    return None, None
                vals[fld] = copy.deepcopy(defaults[fld])
        t = ast.Tuple(elts=[vals[fld] for fld in fields], ctx=ast.Load())
        return name, t

    class Ctor(ast.NodeTransformer):
        def visit_Call(self, n):
            self.generic_visit(n)
            name, t = record(n)
            if isinstance(name, tuple) and t is not None:
                # R._make(iterable): the iterable itself, known to be a record of that type
                t._nt = name[1]
                return t
            if name is not None and t is not None:
                t = ast.copy_location(t, n)
                t._nt = name
                return t
            return n

    tree = Ctor().visit(tree)

    # which functions of the module return a record?
    funcs = {}
    for n in ast.walk(tree):
        if isinstance(n, ast.FunctionDef):
            funcs.setdefault(n.name, []).append(n)

    def nt_of(e, env):
        if getattr(e, "_nt", None):
            return e._nt
        if isinstance(e, ast.Name):
            return env.get(e.id)
        if isinstance(e, ast.IfExp):
            a, b = nt_of(e.body, env), nt_of(e.orelse, env)
            return a if a == b else None
        if isinstance(e, ast.Call):
            f = e.func
            fname = f.id if isinstance(f, ast.Name) else (f.attr if isinstance(f, ast.Attribute) and isinstance(f.value, ast.Name) and f.value.id in ("self", "cls") else None)
            if fname in returns:
                return returns[fname]
        return None

    returns = {}
    changed = True
    rounds = 0
    while changed and rounds < 4:
        changed = False
        rounds += 1
        for name, defs in funcs.items():
            if name in returns or len(defs) != 1:
                continue
            rets = [r for r in ast.walk(defs[0]) if isinstance(r, ast.Return) and r.value is not None]
            if not rets:
                continue
            env = {}
            for a in ast.walk(defs[0]):
                if isinstance(a, ast.Assign) and len(a.targets) == 1 and isinstance(a.targets[0], ast.Name):
                    t = nt_of(a.value, env)
                    if t:
                        env[a.targets[0].id] = t
            kinds = {nt_of(r.value, env) for r in rets}
            if len(kinds) == 1 and None not in kinds:
                returns[name] = kinds.pop()
                changed = True

    class Fields(ast.NodeTransformer):
        def __init__(self):
            self.env = {}

        def visit_FunctionDef(self, fn):
            saved = self.env
            self.env = {}
            for a in ast.walk(fn):
                if isinstance(a, ast.Assign) and len(a.targets) == 1 and isinstance(a.targets[0], ast.Name):
                    t = nt_of(a.value, self.env)
                    if t:
                        self.env[a.targets[0].id] = t
            # a name bound to records of one type only
            for a in ast.walk(fn):
                if isinstance(a, ast.Assign) and len(a.targets) == 1 and isinstance(a.targets[0], ast.Name) and a.targets[0].id in self.env:
                    if nt_of(a.value, self.env) != self.env[a.targets[0].id]:
                        self.env.pop(a.targets[0].id, None)
            self._unpack_records(fn)
            self.generic_visit(fn)
            self.env = saved
            return fn

        def _unpack_records(self, fn):
            """r = f(..) with f returning a record, r read only as r.field: the canonical unpacking
            r__a, r__b = f(..) with the fields as plain locals"""
            for name, t in list(self.env.items()):
                binds = [a for a in ast.walk(fn) if isinstance(a, ast.Assign) and len(a.targets) == 1 and isinstance(a.targets[0], ast.Name) and a.targets[0].id == name]
                stores = [x for x in ast.walk(fn) if isinstance(x, ast.Name) and x.id == name and isinstance(x.ctx, (ast.Store, ast.Del))]
                if len(binds) != 1 or len(stores) != 1 or not isinstance(binds[0].value, ast.Call) or getattr(binds[0].value, "_nt", None):
                    continue
                if name in {a.arg for a in fn.args.args + fn.args.kwonlyargs}:
                    continue
                fields, _, props = nts[t]
                loads = [x for x in ast.walk(fn) if isinstance(x, ast.Name) and x.id == name and isinstance(x.ctx, ast.Load)]
                field_reads = {id(x.value) for x in ast.walk(fn) if isinstance(x, ast.Attribute) and isinstance(x.ctx, ast.Load) and isinstance(x.value, ast.Name) and x.value.id == name and x.attr in fields}
                if not loads or any(id(x) not in field_reads for x in loads):
                    continue
                if any(isinstance(x, (ast.FunctionDef, ast.Lambda)) and x is not fn for x in ast.walk(fn)):
                    continue
                new_names = {f: "%s__%s" % (name, f) for f in fields}
                binds[0].targets = [ast.Tuple(elts=[ast.Name(id=new_names[f], ctx=ast.Store()) for f in fields], ctx=ast.Store())]

                class R(ast.NodeTransformer):
                    def visit_Attribute(self2, a):
                        self2.generic_visit(a)
                        if isinstance(a.value, ast.Name) and a.value.id == name and a.attr in fields and isinstance(a.ctx, ast.Load):
                            return ast.copy_location(ast.Name(id=new_names[a.attr], ctx=ast.Load()), a)
                        return a

                R().visit(fn)
                del self.env[name]

        def visit_Call(self, n):
            self.generic_visit(n)
            f = n.func
            if isinstance(f, ast.Attribute) and _is_simple(f.value) and not n.keywords and not any(isinstance(a, ast.Starred) for a in n.args):
                t = nt_of(f.value, self.env)
                m = nt_methods.get(t, {}).get(f.attr) if t else None
                if m is not None and len(m.args.args) == len(n.args) + 1 and all(_is_simple(a) for a in n.args):
                    fields = nts[t][0]
                    selfname = m.args.args[0].arg
                    expr = [x for x in m.body if isinstance(x, ast.Return)][0].value
                    mapping = {selfname: f.value}
                    mapping.update({a.arg: v for a, v in zip(m.args.args[1:], n.args)})
                    out = subst(expr, mapping)
                    kind = nt_of(expr, {})

                    class P(ast.NodeTransformer):
                        def visit_Attribute(self2, a):
                            self2.generic_visit(a)
                            if a.attr in fields and norm_dump(a.value) == norm_dump(f.value) and isinstance(a.ctx, ast.Load):
                                return ast.Subscript(value=a.value, slice=ast.Constant(value=fields.index(a.attr)), ctx=ast.Load())
                            return a

                    out = P().visit(out)
                    if kind:
                        out._nt = kind
                    return ast.fix_missing_locations(ast.copy_location(out, n))
            return n

        def visit_Attribute(self, n):
            self.generic_visit(n)
            if not isinstance(n.ctx, ast.Load):
                return n
            t = nt_of(n.value, self.env)
            if t is None:
                return n
            fields, _, props = nts[t]
            if n.attr in fields:
                return ast.copy_location(ast.Subscript(value=n.value, slice=ast.Constant(value=fields.index(n.attr)), ctx=ast.Load()), n)
            if n.attr in props and _is_simple(n.value):
                selfname, pfn = props[n.attr]
                expr = [x for x in pfn.body if isinstance(x, ast.Return)][0].value

                class P(ast.NodeTransformer):
                    def visit_Attribute(self2, a):
                        self2.generic_visit(a)
                        if isinstance(a.value, ast.Name) and a.value.id == selfname and a.attr in fields:
                            return ast.Subscript(value=copy.deepcopy(n.value), slice=ast.Constant(value=fields.index(a.attr)), ctx=ast.Load())
                        return a

                return ast.copy_location(P().visit(copy.deepcopy(expr)), n)
            return n

    tree = Fields().visit(tree)
    return ast.fix_missing_locations(tree)

# ---------------------------------------------------------------------------------------------
# statement-level rewrites
# ---------------------------------------------------------------------------------------------


def _own(body, kind):
    """break / continue statements that belong to the loop whose body this is"""
    out = []
    stack = list(body)
    while stack:
        n = stack.pop()
        if isinstance(n, kind):
            out.append(n)
        if isinstance(n, (ast.For, ast.While, ast.FunctionDef, ast.AsyncFunctionDef, ast.Lambda, ast.ClassDef)):
            continue
        stack.extend(ast.iter_child_nodes(n))
    return out


# parameters of the function being rewritten that every caller (within the class) passes a written-out tuple
# of one and the same length: {name: length}
_KNOWN_LENS = {}


def _literal_items(it):
    """the written-out items a loop runs over: (a, b) / [a, b] / zip((a, b), (c, d)) / enumerate((a, b))"""
    seq = _literal_seq(it)
    if seq is not None:
        return seq
    if isinstance(it, ast.Name) and it.id in _KNOWN_LENS:
        return [ast.Subscript(value=ast.Name(id=it.id, ctx=ast.Load()), slice=ast.Constant(value=i), ctx=ast.Load()) for i in range(_KNOWN_LENS[it.id])]
    if isinstance(it, ast.Call) and isinstance(it.func, ast.Name) and not it.keywords:
        if it.func.id == "range" and 1 <= len(it.args) <= 3 and all(isinstance(a, ast.Constant) and isinstance(a.value, int) and not isinstance(a.value, bool) or (isinstance(a, ast.UnaryOp) and isinstance(a.op, ast.USub) and isinstance(a.operand, ast.Constant) and isinstance(a.operand.value, int)) for a in it.args):
            vals = [a.value if isinstance(a, ast.Constant) else -a.operand.value for a in it.args]
            try:
                r = range(*vals)
            except ValueError:
                return None
            if len(r) <= 8:
                return [ast.Constant(value=i) for i in r]
            return None
        if it.func.id == "zip" and it.args:
            cols = [_literal_items(a) for a in it.args]
            if all(c is not None for c in cols) and len({len(c) for c in cols}) == 1:
                return [ast.Tuple(elts=list(row), ctx=ast.Load()) for row in zip(*cols)]
        if it.func.id == "enumerate" and len(it.args) == 1:
            items = _literal_items(it.args[0])
            if items is not None:
                return [ast.Tuple(elts=[ast.Constant(value=i), e], ctx=ast.Load()) for i, e in enumerate(items)]
        if it.func.id in ("reversed",) and len(it.args) == 1:
            items = _literal_items(it.args[0])
            if items is not None:
                return list(reversed(items))
        if it.func.id in ("list", "tuple", "iter") and len(it.args) == 1:
            return _literal_items(it.args[0])
    return None


def _bind(target, value, like, body, single_use=False):
    """statements that bind the loop target to one written-out item, and the substitution that may
    be applied to the body instead (for constants / names / lambdas, when the body does not rebind)"""
    stmts, mapping = [], {}
    rebound = _names_stored(body)

    def rec(t, v):
        if isinstance(t, ast.Name):
            sub_ok = isinstance(v, (ast.Constant, ast.Lambda)) or (isinstance(v, ast.Name) and v.id not in rebound) or (isinstance(v, ast.UnaryOp) and isinstance(v.operand, ast.Constant))
            if not sub_ok and single_use and (_is_simple(v) or _is_pure(v)):
                # read once either way: substituting the attribute chain keeps the number of evaluations
                uses = sum(1 for b in body for x in ast.walk(b) if isinstance(x, ast.Name) and x.id == t.id and isinstance(x.ctx, ast.Load))
                sub_ok = uses <= 1
            if sub_ok and t.id not in rebound:
                mapping[t.id] = v
                if not isinstance(v, ast.Lambda):
                    stmts.append(ast.copy_location(ast.Assign(targets=[ast.Name(id=t.id, ctx=ast.Store())], value=copy.deepcopy(v)), like))
            else:
                stmts.append(ast.copy_location(ast.Assign(targets=[ast.Name(id=t.id, ctx=ast.Store())], value=copy.deepcopy(v)), like))
            return
        if isinstance(t, (ast.Tuple, ast.List)) and isinstance(v, (ast.Tuple, ast.List)) and len(t.elts) == len(v.elts) and not any(isinstance(x, ast.Starred) for x in list(t.elts) + list(v.elts)):
            for tt, vv in zip(t.elts, v.elts):
                rec(tt, vv)
            return
        tgt = copy.deepcopy(t)
        for x in ast.walk(tgt):
            if hasattr(x, "ctx"):
                x.ctx = ast.Store()
        stmts.append(ast.copy_location(ast.Assign(targets=[tgt], value=copy.deepcopy(v)), like))

    rec(target, value)
    return stmts, mapping


def _inline_callable_param_helpers(cls):
    """`self._wrapped(super().train, mode)` with

        def _wrapped(self, method, *args, **kwargs):
            self.cache.invalidate()
            return method(*args, **kwargs)

    is written out at the call site (`self.cache.invalidate(); super().train(mode)`): a bound super-method passed
    to a helper that calls it is the one way such a helper can delegate, and every analysis that looks for the
    delegation (mode switches, state-dict loads, _apply) has to see it where it happens."""
    helpers = {}
    for m in cls.body:
        if not isinstance(m, ast.FunctionDef) or m.decorator_list:
            continue
        a = m.args
        pos = [x.arg for x in a.posonlyargs + a.args]
        if len(pos) < 2 or pos[0] != "self" or a.kwonlyargs or a.defaults:
            continue
        body = [st for st in m.body if not (isinstance(st, ast.Expr) and isinstance(st.value, ast.Constant))]
        if not body or not isinstance(body[-1], ast.Return) or body[-1].value is None:
            continue
        if not all(isinstance(st, ast.Expr) and isinstance(st.value, ast.Call) for st in body[:-1]):
            continue
        cb = pos[1]
        uses = [n for st in body for n in ast.walk(st) if isinstance(n, ast.Name) and n.id == cb]
        calls = [n for st in body for n in ast.walk(st) if isinstance(n, ast.Call) and isinstance(n.func, ast.Name) and n.func.id == cb]
        if len(uses) != 1 or len(calls) != 1:
            continue
        call = calls[0]
        va, ka = (a.vararg.arg if a.vararg else None), (a.kwarg.arg if a.kwarg else None)
        # the callable is applied to exactly the helper's remaining parameters, in order
        want_args = [("name", x) for x in pos[2:]] + ([("star", va)] if va else [])
        got_args = [("star", x.value.id) if isinstance(x, ast.Starred) and isinstance(x.value, ast.Name) else (("name", x.id) if isinstance(x, ast.Name) else None) for x in call.args]
        got_kw = [k.value.id if k.arg is None and isinstance(k.value, ast.Name) else None for k in call.keywords]
        if got_args != want_args or got_kw != ([ka] if ka else []):
            continue
        others = {n.id for st in body for n in ast.walk(st) if isinstance(n, ast.Name)} - {"self", cb} - set(pos[2:]) - {va, ka}
        if any(isinstance(n, ast.Name) and isinstance(n.ctx, ast.Store) for st in body for n in ast.walk(st)):
            continue
        helpers[m.name] = (m, body, call, len(pos) - 2)
    if not helpers:
        return

    def is_super_attr(e):
        return isinstance(e, ast.Attribute) and isinstance(e.value, ast.Call) and isinstance(e.value.func, ast.Name) and e.value.func.id == "super"

    def site(st):
        v = st.value if isinstance(st, (ast.Return, ast.Expr, ast.Assign)) else None
        if isinstance(v, ast.Call) and isinstance(v.func, ast.Attribute) and isinstance(v.func.value, ast.Name) and v.func.value.id == "self" and v.func.attr in helpers and v.args and is_super_attr(v.args[0]):
            return v
        return None

    def rewrite(stmts):
        out = []
        for st in stmts:
            for field in ("body", "orelse", "finalbody"):
                sub = getattr(st, field, None)
                if isinstance(sub, list) and sub and isinstance(sub[0], ast.stmt) and not isinstance(st, (ast.FunctionDef, ast.ClassDef)):
                    setattr(st, field, rewrite(sub))
            v = site(st)
            if v is None:
                out.append(st)
                continue
            m, body, call, n_named = helpers[v.func.attr]
            rest = v.args[1:]
            if any(isinstance(x, ast.Starred) for x in rest[:n_named]) or len(rest) < n_named:
                out.append(st)
                continue
            new_call = ast.Call(func=copy.deepcopy(v.args[0]), args=[copy.deepcopy(x) for x in rest], keywords=[copy.deepcopy(k) for k in v.keywords])

            class R(ast.NodeTransformer):
                def visit_Call(self, n):
                    if n is call or (isinstance(n.func, ast.Name) and n.func.id == call.func.id):
                        return copy.deepcopy(new_call)
                    return self.generic_visit(n)

            for pre in body[:-1]:
                out.append(ast.fix_missing_locations(ast.copy_location(R().visit(copy.deepcopy(pre)), st)))
            ret = R().visit(copy.deepcopy(body[-1].value))
            st.value = ast.copy_location(ret, v)
            out.append(ast.fix_missing_locations(st))
        return out

    for m in cls.body:
        if isinstance(m, ast.FunctionDef) and m.name not in helpers:
            m.body = rewrite(m.body)


def _inline_procedures(cls, module_classes):
    """`self._reset()` as a statement, with `_reset(self)` a private method made of plain attribute assignments /
    call statements only (no return, no control flow, no local left behind): written out where it is called, so
    that `__init__` and `invalidate()` sharing one body read like the two copies they replace."""
    procs = {}
    for m in cls.body:
        if not isinstance(m, ast.FunctionDef) or m.decorator_list or not m.name.startswith("_") or m.name.startswith("__"):
            continue
        a = m.args
        if [x.arg for x in a.posonlyargs + a.args] != ["self"] or a.vararg or a.kwarg or a.kwonlyargs:
            continue
        if any(isinstance(c, ast.ClassDef) and c is not cls and any(isinstance(x, ast.FunctionDef) and x.name == m.name for x in c.body) for c in module_classes):
            continue
        body = [st for st in m.body if not (isinstance(st, ast.Expr) and isinstance(st.value, ast.Constant)) and not isinstance(st, ast.Pass)]
        keep, ok = [], True
        local_consts = set()
        for st in body:
            if isinstance(st, ast.Assign) and len(st.targets) == 1 and isinstance(st.targets[0], ast.Name) and isinstance(st.value, ast.Constant):
                local_consts.add(st.targets[0].id)  # what an unrolled loop leaves behind
                continue
            if isinstance(st, ast.Assign) and all(isinstance(t, ast.Attribute) and isinstance(t.value, ast.Name) and t.value.id == "self" for t in st.targets):
                keep.append(st)
            elif isinstance(st, ast.Expr) and isinstance(st.value, ast.Call):
                keep.append(st)
            else:
                ok = False
                break
        if not ok or not keep or len(keep) > 8:
            continue
        if any(isinstance(n, ast.Name) and n.id in local_consts for st in keep for n in ast.walk(st)):
            continue
        if any(isinstance(n, ast.Call) and isinstance(n.func, ast.Attribute) and isinstance(n.func.value, ast.Name) and n.func.value.id == "self" and n.func.attr == m.name for st in keep for n in ast.walk(st)):
            continue
        procs[m.name] = keep
    if not procs:
        return

    def rewrite(stmts):
        out = []
        for st in stmts:
            for field in ("body", "orelse", "finalbody"):
                sub = getattr(st, field, None)
                if isinstance(sub, list) and sub and isinstance(sub[0], ast.stmt) and not isinstance(st, (ast.FunctionDef, ast.ClassDef)):
                    setattr(st, field, rewrite(sub))
            v = st.value if isinstance(st, ast.Expr) else None
            if isinstance(v, ast.Call) and not v.args and not v.keywords and isinstance(v.func, ast.Attribute) and isinstance(v.func.value, ast.Name) and v.func.value.id == "self" and v.func.attr in procs:
                out.extend(ast.fix_missing_locations(ast.copy_location(copy.deepcopy(x), st)) for x in procs[v.func.attr])
            else:
                out.append(st)
        return out

    for m in cls.body:
        if isinstance(m, ast.FunctionDef) and m.name not in procs:
            m.body = rewrite(m.body)


def _eliminate_memos(tree):
    """A memo table is transparent to what a function computes:

        v = T.get(key)                      if key not in T:
        if v is None:                           T[key] = E
            v = E                           return T[key]          (or T[key].clone(), uses of T[key] ..)
            T[key] = v
        return v

    with T a module-level / class-level dict filled nowhere else.  Every analysis of *values* reads the function
    as `v = E` / `T__entry = E`; whether the table may be shared (its key, what happens to the entries) is decided
    on the source as written, by SHARED-STATE."""
    tables = {}
    for st in tree.body:
        if isinstance(st, ast.Assign) and len(st.targets) == 1 and isinstance(st.targets[0], ast.Name) and _empty_dict(st.value):
            tables[(None, st.targets[0].id)] = st
        if isinstance(st, ast.ClassDef):
            for c in st.body:
                if isinstance(c, ast.Assign) and len(c.targets) == 1 and isinstance(c.targets[0], ast.Name) and _empty_dict(c.value):
                    tables[(st.name, c.targets[0].id)] = c
    if not tables:
        return

    def table_of(e, cls):
        if isinstance(e, ast.Name) and (None, e.id) in tables:
            return (None, e.id)
        if isinstance(e, ast.Attribute) and isinstance(e.value, ast.Name) and e.value.id in ("cls", "self", cls or "") and (cls, e.attr) in tables:
            return (cls, e.attr)
        return None

    def stores_elsewhere(tk, fn):
        for n in ast.walk(tree):
            if isinstance(n, ast.FunctionDef) and n is not fn:
                owner = next((c.name for c in tree.body if isinstance(c, ast.ClassDef) and any(x is n for x in ast.walk(c))), None)
                for x in ast.walk(n):
                    if isinstance(x, ast.Subscript) and isinstance(x.ctx, (ast.Store, ast.Del)) and table_of(x.value, owner) == tk:
                        return True
                    if isinstance(x, ast.Call) and isinstance(x.func, ast.Attribute) and x.func.attr in ("update", "setdefault", "pop", "clear", "popitem") and table_of(x.func.value, owner) == tk:
                        return True
        return False

    def rewrite(fn, cls):
        body = fn.body
        i = 0
        while i < len(body):
            st = body[i]
            # form A
            if isinstance(st, ast.Assign) and len(st.targets) == 1 and isinstance(st.targets[0], ast.Name) and isinstance(st.value, ast.Call) and isinstance(st.value.func, ast.Attribute) and st.value.func.attr == "get" and len(st.value.args) == 1 and i + 1 < len(body):
                tk = table_of(st.value.func.value, cls)
                v = st.targets[0].id
                nx = body[i + 1]
                if tk is not None and isinstance(nx, ast.If) and not nx.orelse and isinstance(nx.test, ast.Compare) and len(nx.test.ops) == 1 and isinstance(nx.test.ops[0], ast.Is) and isinstance(nx.test.left, ast.Name) and nx.test.left.id == v and isinstance(nx.test.comparators[0], ast.Constant) and nx.test.comparators[0].value is None:
                    keep = []
                    stored = False
                    for b in nx.body:
                        if isinstance(b, ast.Assign) and len(b.targets) == 1 and isinstance(b.targets[0], ast.Subscript) and table_of(b.targets[0].value, cls) == tk and isinstance(b.value, ast.Name) and b.value.id == v and norm_dump(b.targets[0].slice) == norm_dump(st.value.args[0]):
                            stored = True
                        else:
                            keep.append(b)
                    if stored and keep and not stores_elsewhere(tk, fn):
                        body[i : i + 2] = keep
                        i += len(keep)
                        continue
            # form B
            if isinstance(st, ast.If) and not st.orelse and isinstance(st.test, ast.Compare) and len(st.test.ops) == 1 and isinstance(st.test.ops[0], ast.NotIn) and len(st.body) == 1:
                tk = table_of(st.test.comparators[0], cls)
                b = st.body[0]
                if tk is not None and isinstance(b, ast.Assign) and len(b.targets) == 1 and isinstance(b.targets[0], ast.Subscript) and table_of(b.targets[0].value, cls) == tk and norm_dump(b.targets[0].slice) == norm_dump(st.test.left) and not stores_elsewhere(tk, fn):
                    entry = "%s__entry" % tk[1].strip("_")
                    keytext = norm_dump(st.test.left)
                    body[i] = ast.copy_location(ast.Assign(targets=[ast.Name(id=entry, ctx=ast.Store())], value=b.value), st)

                    class R(ast.NodeTransformer):
                        def visit_Subscript(self, n):
                            self.generic_visit(n)
                            if isinstance(n.ctx, ast.Load) and table_of(n.value, cls) == tk and norm_dump(n.slice) == keytext:
                                return ast.copy_location(ast.Name(id=entry, ctx=ast.Load()), n)
                            return n

                    for j in range(i + 1, len(body)):
                        body[j] = R().visit(body[j])
            i += 1

    for st in tree.body:
        if isinstance(st, ast.FunctionDef):
            rewrite(st, None)
        elif isinstance(st, ast.ClassDef):
            for m in st.body:
                if isinstance(m, ast.FunctionDef):
                    rewrite(m, st.name)


def _empty_dict(v):
    return (isinstance(v, ast.Dict) and not v.keys) or (isinstance(v, ast.Call) and isinstance(v.func, ast.Name) and v.func.id in ("dict", "OrderedDict") and not v.args and not v.keywords)


class Desugar:
    def __init__(self):
        self.opnames = set()

    # -- entry ---------------------------------------------------------------------------------
    def module(self, tree):
        for st in tree.body:
            if isinstance(st, ast.ImportFrom) and st.module == "operator":
                for al in st.names:
                    self.opnames.add(al.asname or al.name)
        try:
            tree = _eliminate_namedtuples(tree)
        except Exception:
            pass  # leave the module as written: the engines will say "undecided" where they cannot follow
        try:
            _eliminate_memos(tree)
        except Exception:
            pass
        self._module_classes = [c for c in ast.walk(tree) if isinstance(c, ast.ClassDef)]
        # module-level numeric constants written as formulas (_LOG_2PI = np.log(2 * np.pi)), bound once and never
        # rebound anywhere in the module: read as their value
        global _MODULE_NUMBERS
        stores = {}
        for n in ast.walk(tree):
            if isinstance(n, ast.Name) and isinstance(n.ctx, (ast.Store, ast.Del)):
                stores[n.id] = stores.get(n.id, 0) + 1
            elif isinstance(n, ast.arg):
                stores[n.arg] = stores.get(n.arg, 0) + 2
            elif isinstance(n, (ast.Global, ast.Nonlocal)):
                for x in n.names:
                    stores[x] = stores.get(x, 0) + 2
        _MODULE_NUMBERS = {}
        for st in tree.body:
            if isinstance(st, ast.Assign) and len(st.targets) == 1 and isinstance(st.targets[0], ast.Name) and stores.get(st.targets[0].id) == 1 and (st.targets[0].id.startswith("_") or st.targets[0].id.isupper()) and not isinstance(st.value, ast.Constant) and _pure_number(st.value):
                _MODULE_NUMBERS[st.targets[0].id] = _strip_float(st.value)
        self._module_tables = _literal_tables(tree.body, _names_stored_toplevel(tree.body))
        tree.body = self.block(tree.body, None, None)
        return tree

    def _class_consts(self, cls):
        consts = {}
        assigned_on_self = set()
        for n in ast.walk(cls):
            if isinstance(n, ast.Attribute) and isinstance(n.ctx, (ast.Store, ast.Del)) and isinstance(n.value, ast.Name) and n.value.id in ("self", "cls"):
                assigned_on_self.add(n.attr)
        setattrs = [n for n in ast.walk(cls) if isinstance(n, ast.Call) and isinstance(n.func, ast.Name) and n.func.id == "setattr"]
        for st in cls.body:
            if isinstance(st, ast.Assign) and len(st.targets) == 1 and isinstance(st.targets[0], ast.Name):
                v = st.value
                if isinstance(v, (ast.Tuple, ast.List)) and v.elts and all(isinstance(e, ast.Constant) or (isinstance(e, ast.UnaryOp) and isinstance(e.op, (ast.USub, ast.UAdd)) and isinstance(e.operand, ast.Constant)) for e in v.elts):
                    consts[st.targets[0].id] = v
                elif isinstance(v, (ast.Set,)) and v.elts and all(isinstance(e, ast.Constant) for e in v.elts):
                    consts[st.targets[0].id] = ast.copy_location(ast.Tuple(elts=list(v.elts), ctx=ast.Load()), v)  # used for membership
                elif isinstance(v, ast.Call) and isinstance(v.func, ast.Name) and v.func.id in ("frozenset", "set", "tuple") and len(v.args) == 1 and isinstance(v.args[0], (ast.Set, ast.List, ast.Tuple)) and v.args[0].elts and all(isinstance(e, ast.Constant) for e in v.args[0].elts):
                    consts[st.targets[0].id] = ast.copy_location(ast.Tuple(elts=list(v.args[0].elts), ctx=ast.Load()), v)
                elif _pure_number(v):
                    # a class-level numeric constant written as a formula: _LOG_TWO_PI = np.log(2 * np.pi)
                    consts[st.targets[0].id] = _strip_float(v)
        for k in list(consts):
            if k in assigned_on_self or not k.isupper() and not k.startswith("_"):
                del consts[k]
        # setattr(self, <name>, ..) may assign anything -- unless the names it can take are written out: a string
        # constant, or the variable of a loop over one of these constant tuples (none of them naming a constant)
        for n in setattrs:
            nm = n.args[1] if len(n.args) >= 2 else None
            if isinstance(nm, ast.Constant) and isinstance(nm.value, str) and nm.value not in consts:
                continue
            ok = False
            if isinstance(nm, ast.Name):
                loops = [l for l in ast.walk(cls) if isinstance(l, ast.For) and isinstance(l.target, ast.Name) and l.target.id == nm.id and any(x is n for x in ast.walk(l))]
                for l in loops:
                    it = l.iter
                    if isinstance(it, ast.Attribute) and isinstance(it.value, ast.Name) and it.value.id in ("self", "cls") and it.attr in consts:
                        vals = [e.value for e in consts[it.attr].elts if isinstance(e, ast.Constant)]
                        if len(vals) == len(consts[it.attr].elts) and all(isinstance(v, str) and v not in consts for v in vals):
                            ok = True
                    elif isinstance(it, (ast.Tuple, ast.List)) and all(isinstance(e, ast.Constant) and isinstance(e.value, str) and e.value not in consts for e in it.elts):
                        ok = True
            if not ok:
                return {}
        return consts

    def block(self, stmts, fn, cls, tuples=None):
        out = []
        tuples = dict(tuples or {})
        for st in stmts:
            if isinstance(st, ast.For) and tuples:
                st.iter = self._resolve_tuple_names(st.iter, tuples)
            if isinstance(st, (ast.Assign, ast.Return, ast.Expr)) and tuples and st.value is not None:
                # comprehensions over a local bound to a written-out tuple
                for g in ast.walk(st.value):
                    if isinstance(g, (ast.GeneratorExp, ast.ListComp)) and len(g.generators) == 1:
                        g.generators[0].iter = self._resolve_tuple_names(g.generators[0].iter, tuples)
            res = self.stmt(st, fn, cls, tuples)
            # a record (written-out tuple from a NamedTuple constructor) of computed fields bound to a local:
            # the fields get names of their own, so that loops / comprehensions over the record can be written out
            if fn is not None and len(res) == 1 and isinstance(res[0], ast.Assign) and len(res[0].targets) == 1 and isinstance(res[0].targets[0], ast.Name) and isinstance(res[0].value, (ast.Tuple, ast.List)) and (getattr(res[0].value, "_nt", None) or _iterated_later(fn, res[0].targets[0].id)) and len(res[0].value.elts) <= 8 and not all(_is_simple(e) or isinstance(e, ast.Lambda) or (isinstance(e, ast.Tuple) and all(_is_simple(x) or isinstance(x, ast.Lambda) for x in e.elts)) for e in res[0].value.elts) and not any(isinstance(e, ast.Starred) for e in res[0].value.elts):
                a = res[0]
                pre, names = [], []
                for k, e in enumerate(a.value.elts):
                    if _is_simple(e) or isinstance(e, ast.Lambda):
                        names.append(e)
                    else:
                        nm = "%s__%d" % (a.targets[0].id, k)
                        pre.append(ast.fix_missing_locations(ast.copy_location(ast.Assign(targets=[ast.Name(id=nm, ctx=ast.Store())], value=e), a)))
                        names.append(ast.copy_location(ast.Name(id=nm, ctx=ast.Load()), e))
                a.value.elts = names
                res = pre + [a]
            out.extend(res)
            # written-out tuples bound to local names, valid until a constituent is rebound
            for r in res:
                stored = _names_stored([r])
                stored_attrs = {x.attr for x in ast.walk(r) if isinstance(x, ast.Attribute) and isinstance(x.ctx, (ast.Store, ast.Del))}
                for k in list(tuples):
                    roots = {x.id for x in ast.walk(tuples[k]) if isinstance(x, ast.Name)} - {a.arg for x in ast.walk(tuples[k]) if isinstance(x, ast.Lambda) for a in x.args.posonlyargs + x.args.args + x.args.kwonlyargs}
                    attrs = {x.attr for x in ast.walk(tuples[k]) if isinstance(x, ast.Attribute)}
                    if k in stored or (roots - {"self", "cls"}) & stored or attrs & stored_attrs:
                        del tuples[k]
                if isinstance(r, ast.Assign) and len(r.targets) == 1 and isinstance(r.targets[0], ast.Name) and isinstance(r.value, (ast.Tuple, ast.List)) and r.value.elts and all(_is_simple(e) or isinstance(e, ast.Lambda) or (isinstance(e, ast.Tuple) and all(_is_simple(x) or isinstance(x, ast.Lambda) for x in e.elts)) for e in r.value.elts) and fn is not None:
                    tuples[r.targets[0].id] = r.value
        if fn is not None:
            out = self._local_callables(out)
        return out

    def _resolve_tuple_names(self, it, tuples):
        if isinstance(it, ast.Name) and it.id in tuples:
            return copy.deepcopy(tuples[it.id])
        if isinstance(it, ast.Call) and isinstance(it.func, ast.Name) and it.func.id in ("zip", "enumerate", "reversed", "list", "tuple", "iter") and not it.keywords:
            it.args = [self._resolve_tuple_names(a, tuples) for a in it.args]
        return it

    def stmt(self, st, fn, cls, tuples=None):
        if isinstance(st, ast.ClassDef):
            saved = (getattr(self, "_class_tables", {}), getattr(self, "_class_fns", ()), getattr(self, "_class_name", None))
            assigned_on_self = {x.attr for x in ast.walk(st) if isinstance(x, ast.Attribute) and isinstance(x.ctx, (ast.Store, ast.Del)) and isinstance(x.value, ast.Name) and x.value.id in ("self", "cls")}
            tables = _literal_tables(st.body, _names_stored_toplevel(st.body))
            self._class_tables = {k: v for k, v in tables.items() if k not in assigned_on_self}
            self._class_fns = {m.name for m in st.body if isinstance(m, ast.FunctionDef)}
            self._class_name = st.name
            saved_kw = getattr(self, "_kw_helpers", {})
            self._kw_helpers = _kw_helpers(st)
            saved_pl = getattr(self, "_param_lens", {})
            self._param_lens = _param_lens(st)
            try:
                _inline_callable_param_helpers(st)
            except Exception:
                pass  # left as written
            st.body = self.block(st.body, None, st)
            try:
                _inline_procedures(st, getattr(self, "_module_classes", ()))
            except Exception:
                pass  # left as written
            self._kw_helpers = saved_kw
            self._param_lens = saved_pl
            self._class_tables, self._class_fns, self._class_name = saved
            return [st]
        if isinstance(st, (ast.FunctionDef, ast.AsyncFunctionDef)):
            saved = getattr(self, "_consts", {})
            if cls is not None:
                self._consts = self._class_consts(cls)
            global _KNOWN_LENS
            saved_lens = _KNOWN_LENS
            lens = dict(getattr(self, "_param_lens", {}).get(st.name, {})) if cls is not None else {}
            rebound = _names_stored(st.body)
            _KNOWN_LENS = {k: v for k, v in lens.items() if k not in rebound}
            try:
                st.body = self.block(st.body, st, None)
            finally:
                _KNOWN_LENS = saved_lens
            self._consts = saved
            return [st]
        # nested blocks first
        for field in ("body", "orelse", "finalbody"):
            sub = getattr(st, field, None)
            if isinstance(sub, list) and sub and isinstance(sub[0], ast.stmt):
                setattr(st, field, self.block(sub, fn, cls, tuples))
        if isinstance(st, ast.Try):
            for h in st.handlers:
                h.body = self.block(h.body, fn, cls)
        # expressions of this statement (not of nested statements)
        ex = _Expr(self.opnames, getattr(self, "_consts", {}), getattr(self, "_module_tables", {}), getattr(self, "_class_tables", {}), getattr(self, "_class_fns", ()), getattr(self, "_class_name", None), getattr(self, "_kw_helpers", {}))
        for field, value in ast.iter_fields(st):
            if field in ("body", "orelse", "finalbody", "handlers"):
                continue
            if isinstance(value, ast.AST):
                setattr(st, field, ex.visit(value))
            elif isinstance(value, list):
                setattr(st, field, [ex.visit(v) if isinstance(v, ast.AST) else v for v in value])
        res = [st]
        for rewrite in (self._setattr_stmt, self._diagonal_store, self._index_copy, self._inplace_stmt, self._chain, self._walrus, self._reduce, self._for, self._unpack, self._cond_tuple, self._lift_callee_choice):
            nxt = []
            for s in res:
                r = rewrite(s)
                nxt.extend(r if r is not None else [s])
            res = nxt
        return res

    # -- assignment expressions ------------------------------------------------------------------
    def _walrus(self, st):
        if not isinstance(st, (ast.Assign, ast.AugAssign, ast.AnnAssign, ast.Expr, ast.Return, ast.If, ast.Raise, ast.Assert)):
            return None
        roots = [getattr(st, f) for f in ("value", "test", "exc", "msg") if isinstance(getattr(st, f, None), ast.AST)]

        def pure_read(e):
            if isinstance(e, (ast.Name, ast.Constant)):
                return True
            if isinstance(e, ast.Attribute):
                return pure_read(e.value)
            if isinstance(e, ast.Subscript):
                return pure_read(e.value) and pure_read(e.slice)
            return False

        if not any(isinstance(x, ast.NamedExpr) for r in roots for x in ast.walk(r)):
            return None
        # every assignment expression must be reached unconditionally, and only pure reads may
        # be evaluated before it
        order = []

        def linear(e, cond, before_pure):
            """yields (NamedExpr, conditional?, everything evaluated before it is a pure read?)"""
            if isinstance(e, ast.NamedExpr):
                pure_before = before_pure[0]
                linear(e.value, cond, before_pure)
                order.append((e, cond, pure_before))
                before_pure[0] = False  # the value was computed
                return
            if pure_read(e):
                return
            if isinstance(e, (ast.Lambda, ast.ListComp, ast.SetComp, ast.DictComp, ast.GeneratorExp)):
                for x in ast.walk(e):
                    if isinstance(x, ast.NamedExpr):
                        order.append((x, True, False))
                before_pure[0] = False
                return
            if isinstance(e, ast.BoolOp):
                linear(e.values[0], cond, before_pure)
                for v in e.values[1:]:
                    linear(v, True, before_pure)
                before_pure[0] = False
                return
            if isinstance(e, ast.IfExp):
                linear(e.test, cond, before_pure)
                linear(e.body, True, before_pure)
                linear(e.orelse, True, before_pure)
                before_pure[0] = False
                return
            for c in ast.iter_child_nodes(e):
                if isinstance(c, ast.expr):
                    linear(c, cond, before_pure)
            if not isinstance(e, (ast.Tuple, ast.List, ast.Starred, ast.keyword)):
                before_pure[0] = False

        state = [True]
        for r in roots:
            linear(r, False, state)
        # exactly one assignment expression, reached unconditionally, with only pure reads evaluated before it
        if len(order) != 1 or order[0][1] or not order[0][2]:
            return None
        ne = order[0][0]
        name = ne.target.id
        assign = ast.copy_location(ast.Assign(targets=[ast.Name(id=name, ctx=ast.Store())], value=ne.value), st)

        class Rep(ast.NodeTransformer):
            def visit_NamedExpr(self, n):
                if n is ne:
                    return ast.copy_location(ast.Name(id=name, ctx=ast.Load()), n)
                return self.generic_visit(n)

        Rep().visit(st)
        return [assign, st]

    # -- functools.reduce -----------------------------------------------------------------------------
    def _reduce(self, st):
        if not isinstance(st, (ast.Assign, ast.Return)) or not isinstance(st.value, ast.Call):
            return None
        c = st.value
        if _dotted(c.func) not in ("reduce", "functools.reduce") or len(c.args) != 3 or c.keywords:
            return None
        fn, seq, init = c.args
        acc, item = _fresh("acc"), _fresh("item")
        call = ast.Call(func=fn, args=[ast.Name(id=acc, ctx=ast.Load()), ast.Name(id=item, ctx=ast.Load())], keywords=[])
        if isinstance(fn, ast.Lambda):
            b = _beta(fn, call)
            call = b if b is not None else call
        body = ast.Assign(targets=[ast.Name(id=acc, ctx=ast.Store())], value=call)
        loop = ast.For(target=ast.Name(id=item, ctx=ast.Store()), iter=seq, body=[body], orelse=[])
        first = ast.Assign(targets=[ast.Name(id=acc, ctx=ast.Store())], value=init)
        if isinstance(st, ast.Assign):
            last = ast.Assign(targets=st.targets, value=ast.Name(id=acc, ctx=ast.Load()))
        else:
            last = ast.Return(value=ast.Name(id=acc, ctx=ast.Load()))
        out = [ast.fix_missing_locations(ast.copy_location(x, st)) for x in (first, loop, last)]
        # the new loop may itself run over written-out items
        res = []
        for s in out:
            r = self._for(s) if isinstance(s, ast.For) else None
            res.extend(r if r is not None else [s])
        return res

    # -- loops over written-out items ----------------------------------------------------------------
    def _for(self, st):
        if not isinstance(st, ast.For):
            return None
        it = st.iter
        # itertools.repeat(None, n) only counts
        if isinstance(it, ast.Call) and _dotted(it.func) in ("repeat", "itertools.repeat") and len(it.args) == 2 and isinstance(it.args[0], ast.Constant) and it.args[0].value is None:
            st.iter = ast.copy_location(ast.Call(func=ast.Name(id="range", ctx=ast.Load()), args=[it.args[1]], keywords=[]), it)
            return [st]
        items = _literal_items(it)
        if items is None or not (0 < len(items) <= 8):
            return None
        breaks, conts = _own(st.body, ast.Break), _own(st.body, ast.Continue)
        if conts:
            return None
        if not breaks:
            out = []
            for v in items:
                binds, mapping = _bind(st.target, v, st, st.body, single_use=True)
                # a substituted name needs no binding statement
                binds = [b for b in binds if not (isinstance(b.targets[0], ast.Name) and b.targets[0].id in mapping and not isinstance(mapping[b.targets[0].id], (ast.Constant, ast.Name)))]
                out.extend(binds)
                for b in st.body:
                    nb = subst(b, mapping) if mapping else copy.deepcopy(b)
                    out.extend(self.stmt(nb, None, None) if mapping else [nb])
            out.extend(st.orelse)
            return out
        last = st.body[-1]
        if len(breaks) != 1 or not isinstance(last, ast.If) or last.orelse or not last.body or last.body[-1] is not breaks[0]:
            return None
        chain = list(st.orelse)
        for v in reversed(items):
            binds, mapping = _bind(st.target, v, st, st.body)
            pre = [subst(s, mapping) if mapping else copy.deepcopy(s) for s in st.body[:-1]]
            taken = [subst(s, mapping) if mapping else copy.deepcopy(s) for s in last.body[:-1]] or [ast.copy_location(ast.Pass(), last)]
            test = subst(last.test, mapping) if mapping else copy.deepcopy(last.test)
            if mapping:
                ex = _Expr(self.opnames, getattr(self, "_consts", {}), getattr(self, "_module_tables", {}), getattr(self, "_class_tables", {}), getattr(self, "_class_fns", ()), getattr(self, "_class_name", None))
                test = ex.visit(test)
                pre = [y for s in pre for y in self.stmt(s, None, None)]
                taken = [y for s in taken for y in self.stmt(s, None, None)]
            iff = ast.copy_location(ast.If(test=test, body=taken, orelse=chain), last)
            chain = binds + pre + [iff]
        return chain

    # -- unpacking a generator / comprehension over written-out items -----------------------------------
    def _unpack(self, st):
        if not (isinstance(st, ast.Assign) and len(st.targets) == 1 and isinstance(st.targets[0], (ast.Tuple, ast.List))):
            return None
        tg = st.targets[0]
        v = st.value
        if isinstance(v, ast.Call) and isinstance(v.func, ast.Name) and v.func.id in ("tuple", "list") and len(v.args) == 1 and not v.keywords:
            v = v.args[0]
        if not isinstance(v, (ast.GeneratorExp, ast.ListComp)) or len(v.generators) != 1:
            return None
        g = v.generators[0]
        if g.ifs or g.is_async:
            return None
        items = _literal_items(g.iter)
        if items is None or len(items) != len(tg.elts) or any(isinstance(t, ast.Starred) for t in tg.elts):
            return None
        out = []
        tmp = []
        for t, item in zip(tg.elts, items):
            binds, mapping = _bind(g.target, item, st, [v.elt], single_use=True)
            names = _names_stored([g.target])
            # every loop variable must be substituted or bound to a fresh name (the comprehension has its own scope)
            ren = {}
            pre = []
            for b in binds:
                if isinstance(b.targets[0], ast.Name) and b.targets[0].id in mapping:
                    continue
                for x in ast.walk(b.targets[0]):
                    if isinstance(x, ast.Name):
                        ren.setdefault(x.id, _fresh(x.id))
                        x.id = ren[x.id]
                pre.append(b)
            m2 = dict(mapping)
            for old, new in ren.items():
                m2[old] = ast.Name(id=new, ctx=ast.Load())
            val = subst(v.elt, m2)
            val = _Expr(self.opnames, getattr(self, "_consts", {}), getattr(self, "_module_tables", {}), getattr(self, "_class_tables", {}), getattr(self, "_class_fns", ()), getattr(self, "_class_name", None)).visit(val)
            out.extend(pre)
            name = _fresh("u")
            tmp.append(name)
            out.append(ast.copy_location(ast.Assign(targets=[ast.Name(id=name, ctx=ast.Store())], value=val), st))
        # when no element reads what an earlier target writes, assign directly (keeps `self.a = Ctor(..)` visible)
        tnames = set()
        for t in tg.elts:
            for x in ast.walk(t):
                if isinstance(x, ast.Name):
                    tnames.add(x.id)
                elif isinstance(x, ast.Attribute):
                    tnames.add(x.attr)
        values = [s_ for s_ in out if isinstance(s_, ast.Assign) and isinstance(s_.targets[0], ast.Name) and s_.targets[0].id in tmp]
        reads = set()
        for s_ in values:
            for x in ast.walk(s_.value):
                if isinstance(x, ast.Name):
                    reads.add(x.id)
                elif isinstance(x, ast.Attribute):
                    reads.add(x.attr)
        if not (tnames & reads):
            direct = []
            it_t = iter(tg.elts)
            for s_ in out:
                if s_ in values:
                    direct.append(ast.copy_location(ast.Assign(targets=[copy.deepcopy(next(it_t))], value=s_.value), st))
                else:
                    direct.append(s_)
            return [ast.fix_missing_locations(x) for x in direct]
        for t, name in zip(tg.elts, tmp):
            tt = copy.deepcopy(t)
            out.append(ast.copy_location(ast.Assign(targets=[tt], value=ast.Name(id=name, ctx=ast.Load())), st))
        return [ast.fix_missing_locations(x) for x in out]

    # -- a conditional callee: lift the choice to the statement ------------------------------------------
    def _lift_callee_choice(self, st, depth=0):
        if not isinstance(st, (ast.Assign, ast.AugAssign, ast.Return, ast.Expr)) or st.value is None or depth > 6:
            return None
        if isinstance(st, ast.Assign) and len(st.targets) == 1 and isinstance(st.targets[0], ast.Name) and isinstance(st.value, ast.IfExp) and _callable_chain(st.value):
            return None  # a local bound to a choice of functions: expanded at its call sites (_local_callables)
        # the outermost marked conditional (a chain nests in its else branch): pre-order
        m = None
        stack = [st.value]
        while stack and m is None:
            n = stack.pop(0)
            if isinstance(n, (ast.Lambda, ast.ListComp, ast.SetComp, ast.DictComp, ast.GeneratorExp)):
                continue
            if isinstance(n, ast.IfExp) and getattr(n, "_from_callee", False):
                m = n
                break
            stack = list(ast.iter_child_nodes(n)) + stack
        if m is None or not _simple_test(m.test):
            return None

        def variant(branch):
            target = m

            class Rep(ast.NodeTransformer):
                def visit(self, n):
                    if n is target_copy[0]:
                        return copy.deepcopy(branch)
                    return self.generic_visit(n)

            # copy the statement and find the copy of `m` by position
            c = copy.deepcopy(st)
            orig_nodes = list(ast.walk(st))
            copy_nodes = list(ast.walk(c))
            target_copy = [copy_nodes[orig_nodes.index(target)]]
            return Rep().visit(c)

        a, b = variant(m.body), variant(m.orelse)
        ra = self._lift_callee_choice(a, depth + 1) or [a]
        rb = self._lift_callee_choice(b, depth + 1) or [b]
        return [ast.fix_missing_locations(ast.copy_location(ast.If(test=copy.deepcopy(m.test), body=ra, orelse=rb), st))]

    # -- x.mul_(a) as a statement: x *= a ------------------------------------------------------------------
    def _setattr_stmt(self, st):
        """setattr(obj, "name", value) as a statement  ->  obj.name = value"""
        if isinstance(st, ast.Expr) and isinstance(st.value, ast.Call) and isinstance(st.value.func, ast.Name) and st.value.func.id == "setattr" and len(st.value.args) == 3 and not st.value.keywords:
            obj, nm, val = st.value.args
            if isinstance(nm, ast.Constant) and isinstance(nm.value, str) and nm.value.isidentifier() and _is_simple(obj):
                tgt = ast.copy_location(ast.Attribute(value=obj, attr=nm.value, ctx=ast.Store()), st)
                return [ast.fix_missing_locations(ast.copy_location(ast.Assign(targets=[tgt], value=val), st))]
        return None

    def _diagonal_store(self, st):
        """M.diagonal().fill_(c) / M.diagonal().copy_(v) as a statement, M a local: a store into the main diagonal,
        written  M[__diag__] = c  (the index name is a marker the matrix-word algebra reads as the diagonal)"""
        if isinstance(st, ast.Expr) and isinstance(st.value, ast.Call) and isinstance(st.value.func, ast.Attribute) and st.value.func.attr in ("fill_", "copy_") and len(st.value.args) == 1 and not st.value.keywords:
            recv = st.value.func.value
            if isinstance(recv, ast.Call) and isinstance(recv.func, ast.Attribute) and recv.func.attr == "diagonal" and not recv.args and not recv.keywords and isinstance(recv.func.value, ast.Name):
                tgt = ast.Subscript(value=recv.func.value, slice=ast.Name(id="__diag__", ctx=ast.Load()), ctx=ast.Store())
                return [ast.fix_missing_locations(ast.copy_location(ast.Assign(targets=[tgt], value=st.value.args[0]), st))]
        return None

    def _inplace_stmt(self, st):
        ops = {"add_": ast.Add, "sub_": ast.Sub, "mul_": ast.Mult, "div_": ast.Div}
        if isinstance(st, ast.Expr) and isinstance(st.value, ast.Call) and isinstance(st.value.func, ast.Attribute) and st.value.func.attr in ops and isinstance(st.value.func.value, ast.Name) and len(st.value.args) == 1 and not st.value.keywords and not isinstance(st.value.args[0], ast.Starred):
            tgt = ast.Name(id=st.value.func.value.id, ctx=ast.Store())
            return [ast.fix_missing_locations(ast.copy_location(ast.AugAssign(target=tgt, op=ops[st.value.func.attr](), value=st.value.args[0]), st))]
        return None

    # -- out.index_copy_(d, idx, v) as a statement: out[:, idx] = v ---------------------------------------
    def _index_copy(self, st):
        if not (isinstance(st, ast.Expr) and isinstance(st.value, ast.Call) and isinstance(st.value.func, ast.Attribute) and st.value.func.attr == "index_copy_" and len(st.value.args) == 3 and not st.value.keywords):
            return None
        d, idx, v = st.value.args
        if not (isinstance(d, ast.Constant) and isinstance(d.value, int) and not isinstance(d.value, bool) and 0 <= d.value <= 4):
            return None
        full = [ast.Slice(lower=None, upper=None, step=None) for _ in range(d.value)]
        sl = ast.Tuple(elts=full + [idx], ctx=ast.Load()) if full else idx
        tgt = ast.Subscript(value=st.value.func.value, slice=sl, ctx=ast.Store())
        return [ast.fix_missing_locations(ast.copy_location(ast.Assign(targets=[tgt], value=v), st))]

    # -- chain assignment of a tuple display: a = b, c = X, Y  ->  b, c = X, Y ; a = (b, c) ------------------
    def _chain(self, st):
        if not (isinstance(st, ast.Assign) and len(st.targets) == 2 and isinstance(st.value, ast.Tuple)):
            return None
        t0, t1 = st.targets
        if isinstance(t0, ast.Name) and isinstance(t1, ast.Tuple) and len(t1.elts) == len(st.value.elts) and all(isinstance(x, ast.Name) for x in t1.elts) and t0.id not in {x.id for x in t1.elts}:
            first = ast.copy_location(ast.Assign(targets=[t1], value=st.value), st)
            second = ast.copy_location(ast.Assign(targets=[t0], value=ast.Tuple(elts=[ast.Name(id=x.id, ctx=ast.Load()) for x in t1.elts], ctx=ast.Load())), st)
            return [ast.fix_missing_locations(first), ast.fix_missing_locations(second)]
        return None

    # -- conditional tuples ------------------------------------------------------------------------------
    def _cond_tuple(self, st):
        if isinstance(st, ast.Assign) and isinstance(st.value, ast.IfExp) and len(st.targets) == 1:
            v = st.value
            tuple_target = isinstance(st.targets[0], (ast.Tuple, ast.List))
            # a, b = (f, op) if c else (g, op2) with callables: a = f if c else g; b = op if c else op2
            leaves = []

            def collect(e):
                if isinstance(e, ast.IfExp):
                    return collect(e.body) and collect(e.orelse)
                if isinstance(e, ast.Tuple):
                    leaves.append(e)
                    return True
                return False

            if tuple_target and collect(v) and leaves and all(len(t.elts) == len(st.targets[0].elts) for t in leaves) and all(isinstance(x, ast.Name) for x in st.targets[0].elts) and all(isinstance(x, (ast.Name, ast.Attribute)) and not (isinstance(x, ast.Name) and x.id in ("None", "True", "False")) for t in leaves for x in t.elts) and all(_callable_like(x) for t in leaves for x in t.elts) and _simple_chain_tests(v):
                out = []
                for i, tgt in enumerate(st.targets[0].elts):
                    def pick(e, i=i):
                        if isinstance(e, ast.IfExp):
                            r = ast.IfExp(test=copy.deepcopy(e.test), body=pick(e.body), orelse=pick(e.orelse))
                            r._from_callee = True
                            return r
                        return copy.deepcopy(e.elts[i])

                    out.append(ast.fix_missing_locations(ast.copy_location(ast.Assign(targets=[copy.deepcopy(tgt)], value=pick(v)), st)))
                return out
            tuple_values = isinstance(v.body, ast.Tuple) and isinstance(v.orelse, ast.Tuple)
            # self.x = A if c else B : the attribute has two alternative definitions
            attr_target = isinstance(st.targets[0], ast.Attribute) and isinstance(st.targets[0].value, ast.Name) and st.targets[0].value.id == "self"
            if not (tuple_target or tuple_values or attr_target):
                return None
            a = ast.copy_location(ast.Assign(targets=copy.deepcopy(st.targets), value=v.body), st)
            b = ast.copy_location(ast.Assign(targets=copy.deepcopy(st.targets), value=v.orelse), st)
            ra = self._cond_tuple(a) or [a]
            rb = self._cond_tuple(b) or [b]
            return [ast.copy_location(ast.If(test=v.test, body=ra, orelse=rb), st)]
        return None

    # -- local lambdas, closures, partials ------------------------------------------------------------------
    def _local_callables(self, stmts):
        """Within one block: `f = lambda ..: E`, `def f(..): return E` (or a straight-line body ending in
        one return) and `f = partial(g, ..)` bound once, used only by calling -- the calls are expanded."""
        changed = True
        rounds = 0
        while changed and rounds < 6:
            changed = False
            rounds += 1
            for i, st in enumerate(stmts):
                name, kind = None, None
                if isinstance(st, ast.Assign) and len(st.targets) == 1 and isinstance(st.targets[0], ast.Name):
                    if isinstance(st.value, ast.Lambda):
                        name, kind = st.targets[0].id, "lambda"
                    elif isinstance(st.value, ast.Call) and _dotted(st.value.func) in ("partial", "functools.partial") and st.value.args:
                        name, kind = st.targets[0].id, "partial"
                    elif _literal_mapping(st.value) is not None:
                        r = self._expand_kwdict(stmts, i, st.targets[0].id, _literal_mapping(st.value))
                        if r is None and isinstance(st.value, ast.Dict) and st.targets[0].id in _literal_tables([st], {st.targets[0].id: 1}) and all(_is_simple(v) or _callable_chain(v) or isinstance(v, ast.Lambda) for v in st.value.values):
                            r = self._expand_local_table(stmts, i, st.targets[0].id, st.value)
                        if r is not None:
                            stmts = r
                            changed = True
                            break
                        continue
                    elif isinstance(st.value, ast.IfExp) and _callable_chain(st.value):
                        name, kind = st.targets[0].id, "ifexp"
                    elif isinstance(st.value, ast.Dict) and st.targets[0].id in _literal_tables([st], {st.targets[0].id: 1}) and all(_is_simple(v) or _callable_chain(v) for v in st.value.values):
                        r = self._expand_local_table(stmts, i, st.targets[0].id, st.value)
                        if r is not None:
                            stmts = r
                            changed = True
                            break
                        continue
                elif isinstance(st, ast.FunctionDef) and not st.decorator_list and self._inlinable_def(st):
                    name, kind = st.name, "def"
                elif isinstance(st, ast.If) and _simple_test(st.test) and st.orelse:
                    r = self._if_bound_callables(stmts, i)
                    if r is not None:
                        stmts = r
                        changed = True
                        break
                    continue
                if name is None:
                    continue
                rest = stmts[i + 1 :]
                # bound once in this block (and not in nested scopes that could see it), used only as a callee
                others = [s for j, s in enumerate(stmts) if j != i]
                if name in _names_stored(others):
                    continue
                uses = [n for s in rest for n in ast.walk(s) if isinstance(n, ast.Name) and n.id == name and isinstance(n.ctx, ast.Load)]
                if not uses:
                    continue
                callee_uses = {id(n.func) for s in rest for n in ast.walk(s) if isinstance(n, ast.Call) and isinstance(n.func, ast.Name) and n.func.id == name}
                if kind == "ifexp" and _has_none(st.value):
                    # `f is None` / `f is not None` tests of a choice that may be "no function"
                    callee_uses |= {id(n.left) for s in rest for n in ast.walk(s) if isinstance(n, ast.Compare) and len(n.ops) == 1 and isinstance(n.ops[0], (ast.Is, ast.IsNot)) and isinstance(n.left, ast.Name) and n.left.id == name and isinstance(n.comparators[0], ast.Constant) and n.comparators[0].value is None}
                if any(id(u) not in callee_uses for u in uses):
                    continue
                earlier = [n for s in stmts[:i] for n in ast.walk(s) if isinstance(n, ast.Name) and n.id == name]
                if earlier:
                    continue
                new_rest = self._expand_calls(rest, name, kind, st)
                if new_rest is None:
                    continue
                stmts = stmts[:i] + new_rest
                changed = True
                break
        return stmts

    def _if_bound_callables(self, stmts, i):
        """if c: f, g = A, B / else: f, g = A2, B2  with f, g used only as callees afterwards: the calls are
        written as  (A if c else A2)(..)  -- the same case distinction at the place of use"""
        st = stmts[i]

        def binds(block):
            out = {}
            for s in block:
                if not (isinstance(s, ast.Assign) and len(s.targets) == 1):
                    return None
                t, v = s.targets[0], s.value
                if isinstance(t, ast.Name):
                    pairs = [(t, v)]
                elif isinstance(t, (ast.Tuple, ast.List)) and isinstance(v, (ast.Tuple, ast.List)) and len(t.elts) == len(v.elts) and all(isinstance(x, ast.Name) for x in t.elts):
                    pairs = list(zip(t.elts, v.elts))
                else:
                    return None
                for tt, vv in pairs:
                    if tt.id in out or not _is_simple(vv):
                        return None
                    out[tt.id] = vv
            return out

        def is_ref(v):
            if isinstance(v, ast.IfExp):
                return is_ref(v.body) and is_ref(v.orelse)
            return isinstance(v, (ast.Name, ast.Attribute)) and not (isinstance(v, ast.Name) and v.id in ("None", "True", "False"))

        def chain(node):
            """{name: conditional expression} for an if / elif / else that only binds references"""
            a = binds(node.body)
            if a is None or not _simple_test(node.test):
                return None
            if len(node.orelse) == 1 and isinstance(node.orelse[0], ast.If):
                b = chain(node.orelse[0])
            else:
                b = binds(node.orelse)
            if b is None or set(a) != set(b) or not a:
                return None
            return {k: ast.IfExp(test=copy.deepcopy(node.test), body=a[k], orelse=b[k]) for k in a}

        defs = chain(st)
        if defs is None:
            return None
        rest = stmts[i + 1 :]
        others = stmts[:i] + rest
        tests = []
        n = st
        while True:
            tests.append(n.test)
            if len(n.orelse) == 1 and isinstance(n.orelse[0], ast.If):
                n = n.orelse[0]
            else:
                break
        tested = {x.id for t in tests for x in ast.walk(t) if isinstance(x, ast.Name)}
        chosen = {}
        for name in defs:
            if not is_ref(defs[name]):
                continue  # a constant / tuple chosen alongside the functions: stays bound by the if
            if name in _names_stored(others) or name in tested:
                continue
            if any(isinstance(x, ast.Name) and x.id == name for s in stmts[:i] for x in ast.walk(s)):
                continue
            uses = [x for s in rest for x in ast.walk(s) if isinstance(x, ast.Name) and x.id == name and isinstance(x.ctx, ast.Load)]
            callee_uses = {id(x.func) for s in rest for x in ast.walk(s) if isinstance(x, ast.Call) and isinstance(x.func, ast.Name) and x.func.id == name}
            if not uses or any(id(u) not in callee_uses for u in uses):
                continue
            chosen[name] = defs[name]
        if not chosen:
            return None
        kept = [n for n in defs if n not in chosen]
        defs_all, defs = defs, chosen
        # the tests and the references must mean the same where the calls are: nothing they read is rebound
        stored_later = _names_stored(rest)
        read = {x.id for v in defs.values() for x in ast.walk(v) if isinstance(x, ast.Name)}
        if (read - {"self", "cls"}) & stored_later:
            return None
        attrs_read = {x.attr for v in defs.values() for x in ast.walk(v) if isinstance(x, ast.Attribute)}
        attrs_stored = {x.attr for q in rest for x in ast.walk(q) if isinstance(x, ast.Attribute) and isinstance(x.ctx, (ast.Store, ast.Del))}
        if attrs_read & attrs_stored:
            return None
        new_rest = rest
        for name, value in defs.items():
            fake = ast.Assign(targets=[ast.Name(id=name, ctx=ast.Store())], value=value)
            new_rest = self._expand_calls(new_rest, name, "ifexp", fake)
            if new_rest is None:
                return None
        head = []
        if kept:
            # the other names the branches bind stay where they were: name = A if c else B
            for nm in kept:
                a = ast.Assign(targets=[ast.Name(id=nm, ctx=ast.Store())], value=defs_all[nm])
                head.append(ast.fix_missing_locations(ast.copy_location(a, st)))
        return stmts[:i] + head + new_rest

    def _expand_local_table(self, stmts, i, name, table):
        """`t = {4: f, 2: g}` bound once and used only as `t[key]` / `t.get(key)` / `t.get(key, default)` later in
        the block: the lookups become conditional expressions over the written-out keys"""
        others = [s for j, s in enumerate(stmts) if j != i]
        if name in _names_stored(others) or any(isinstance(n, ast.Name) and n.id == name for s in stmts[:i] for n in ast.walk(s)):
            return None
        rest = stmts[i + 1 :]
        uses = [n for s in rest for n in ast.walk(s) if isinstance(n, ast.Name) and n.id == name]
        ok_uses = set()
        for s in rest:
            for n in ast.walk(s):
                if isinstance(n, ast.Subscript) and isinstance(n.ctx, ast.Load) and isinstance(n.value, ast.Name) and n.value.id == name and not isinstance(n.slice, (ast.Slice, ast.Tuple)) and _cheap_key(n.slice):
                    ok_uses.add(id(n.value))
                if isinstance(n, ast.Call) and isinstance(n.func, ast.Attribute) and n.func.attr == "get" and isinstance(n.func.value, ast.Name) and n.func.value.id == name and 1 <= len(n.args) <= 2 and not n.keywords and _cheap_key(n.args[0]) and (len(n.args) == 1 or _is_simple(n.args[1])):
                    ok_uses.add(id(n.func.value))
        if not uses or any(id(u) not in ok_uses for u in uses):
            return None
        # the values are references, the keys constants: nothing is evaluated by building the table
        stored_later = _names_stored(rest)
        if any(isinstance(x, ast.Name) and x.id in stored_later for v in table.values for x in ast.walk(v)):
            return None
        attrs_stored = {x.attr for q in rest for x in ast.walk(q) if isinstance(x, ast.Attribute) and isinstance(x.ctx, (ast.Store, ast.Del))}
        if any(isinstance(x, ast.Attribute) and x.attr in attrs_stored for v in table.values for x in ast.walk(v)):
            return None

        ex = _Expr(self.opnames, getattr(self, "_consts", {}), getattr(self, "_module_tables", {}), getattr(self, "_class_tables", {}), getattr(self, "_class_fns", ()), getattr(self, "_class_name", None))

        class Rep(ast.NodeTransformer):
            def visit_Subscript(self, n):
                self.generic_visit(n)
                if isinstance(n.value, ast.Name) and n.value.id == name and isinstance(n.ctx, ast.Load):
                    return ast.fix_missing_locations(ast.copy_location(_table_lookup(table, n.slice), n))
                return n

            def visit_Call(self, n):
                self.generic_visit(n)
                if isinstance(n.func, ast.IfExp):
                    return ex.visit_Call(n)
                if isinstance(n.func, ast.Attribute) and n.func.attr == "get" and isinstance(n.func.value, ast.Name) and n.func.value.id == name:
                    default = n.args[1] if len(n.args) == 2 else ast.Constant(value=None)
                    t2 = ast.Dict(keys=list(table.keys) + [ast.Constant(value="<default>")], values=list(table.values) + [default])
                    return ast.fix_missing_locations(ast.copy_location(_table_lookup(t2, n.args[0]), n))
                return n

        new_rest = [Rep().visit(s) for s in rest]
        return stmts[:i] + self._post(new_rest)

    def _expand_kwdict(self, stmts, i, name, pairs):
        """`d = {..literal keys..}` used only as `f(**d)` later in the block: the keywords written out"""
        others = [s for j, s in enumerate(stmts) if j != i]
        if name in _names_stored(others):
            return None
        rest = stmts[i + 1 :]
        uses = [n for s in rest for n in ast.walk(s) if isinstance(n, ast.Name) and n.id == name and isinstance(n.ctx, ast.Load)]
        star_uses = {id(k.value) for s in rest for n in ast.walk(s) if isinstance(n, ast.Call) for k in n.keywords if k.arg is None and isinstance(k.value, ast.Name) and k.value.id == name}
        if not uses or any(id(u) not in star_uses for u in uses) or len(uses) != 1:
            return None
        if any(isinstance(n, ast.Name) and n.id == name for s in stmts[:i] for n in ast.walk(s)):
            return None
        # the values are evaluated where the dict was built: keep that order by binding them there
        binds, kws = [], []
        for k, v in pairs:
            if _is_simple(v):
                kws.append((k, v))
            else:
                t = _fresh(k)
                binds.append(ast.fix_missing_locations(ast.copy_location(ast.Assign(targets=[ast.Name(id=t, ctx=ast.Store())], value=v), stmts[i])))
                kws.append((k, ast.Name(id=t, ctx=ast.Load())))

        class Rep(ast.NodeTransformer):
            def visit_Call(self, n):
                self.generic_visit(n)
                new = []
                for k in n.keywords:
                    if k.arg is None and isinstance(k.value, ast.Name) and k.value.id == name:
                        new.extend(ast.keyword(arg=kk, value=copy.deepcopy(vv)) for kk, vv in kws)
                    else:
                        new.append(k)
                n.keywords = new
                return n

        return stmts[:i] + binds + [ast.fix_missing_locations(Rep().visit(s)) for s in rest]

    def _inlinable_def(self, fn):
        a = fn.args
        if a.vararg or a.kwarg or a.kwonlyargs:
            return False
        body = [s for s in fn.body if not (isinstance(s, ast.Expr) and isinstance(s.value, ast.Constant))]
        if not body or not isinstance(body[-1], ast.Return) or body[-1].value is None:
            return False
        for s in body[:-1]:
            if not isinstance(s, (ast.Assign, ast.AugAssign, ast.Expr)):
                return False
        for n in ast.walk(fn):
            if isinstance(n, (ast.Yield, ast.YieldFrom, ast.Nonlocal, ast.Global, ast.Await)) or (isinstance(n, (ast.FunctionDef, ast.Lambda)) and n is not fn):
                return False
            if isinstance(n, ast.Return) and n is not body[-1]:
                return False
            if isinstance(n, ast.Name) and n.id == fn.name:
                return False  # recursive
        return True

    def _expand_calls(self, rest, name, kind, defn):
        """the statements `rest` with every call of `name` expanded, or None when some call cannot be"""
        ex = _Expr(self.opnames, getattr(self, "_consts", {}), getattr(self, "_module_tables", {}), getattr(self, "_class_tables", {}), getattr(self, "_class_fns", ()), getattr(self, "_class_name", None))
        failed = []

        def expr_form(call):
            if kind == "lambda":
                return _beta(defn.value, call)
            if kind == "partial":
                p = defn.value
                if not all(_is_simple(a) or isinstance(a, ast.Constant) for a in p.args[1:]) or not all(_is_simple(k.value) or isinstance(k.value, (ast.Constant, ast.Call, ast.Attribute, ast.BinOp)) for k in p.keywords):
                    pass
                return ast.Call(func=copy.deepcopy(p.args[0]), args=[copy.deepcopy(a) for a in p.args[1:]] + list(call.args), keywords=[copy.deepcopy(k) for k in p.keywords] + list(call.keywords))
            if kind == "ifexp":
                def build(v):
                    if isinstance(v, ast.IfExp):
                        if not _simple_test(v.test):
                            raise ValueError("test")
                        # a call happens only where the choice is a function (the uses test `f is not None`)
                        if _all_none(v.body):
                            return build(v.orelse)
                        if _all_none(v.orelse):
                            return build(v.body)
                        out = ast.IfExp(test=copy.deepcopy(v.test), body=build(v.body), orelse=build(v.orelse))
                        out._from_callee = True
                        return out
                    return ast.Call(func=copy.deepcopy(v), args=copy.deepcopy(call.args), keywords=copy.deepcopy(call.keywords))

                try:
                    return build(defn.value)
                except ValueError:
                    return None
            if kind == "def":
                body = [s for s in defn.body if not (isinstance(s, ast.Expr) and isinstance(s.value, ast.Constant))]
                if len(body) == 1:
                    lam = ast.Lambda(args=defn.args, body=body[0].value)
                    return _beta(lam, call)
                return None
            return None

        class Rep(ast.NodeTransformer):
            def visit_Compare(self, n):
                if kind == "ifexp" and len(n.ops) == 1 and isinstance(n.ops[0], (ast.Is, ast.IsNot)) and isinstance(n.left, ast.Name) and n.left.id == name and isinstance(n.comparators[0], ast.Constant) and n.comparators[0].value is None:
                    if not _simple_chain_tests(defn.value):
                        failed.append(n)
                        return n
                    t = _is_set_test(defn.value)
                    if isinstance(n.ops[0], ast.Is):
                        t = ast.UnaryOp(op=ast.Not(), operand=t)
                    return ast.fix_missing_locations(ast.copy_location(t, n))
                return self.generic_visit(n)

            def visit_Call(self, n):
                self.generic_visit(n)
                if isinstance(n.func, ast.Name) and n.func.id == name:
                    r = expr_form(n)
                    if r is None:
                        failed.append(n)
                        return n
                    return ex.visit(ast.fix_missing_locations(ast.copy_location(r, n)))
                return n

        out = []
        for s in rest:
            # statement-level expansion of a multi-statement closure: T = f(args) / return f(args) / f(args)
            if kind == "def" and len([x for x in defn.body if not (isinstance(x, ast.Expr) and isinstance(x.value, ast.Constant))]) > 1:
                r = self._inline_def_stmt(s, name, defn)
                if r is not None:
                    out.extend(r)
                    continue
            s2 = Rep().visit(s)
            out.append(s2)
        if failed:
            return None
        # the expansion may have produced new conditional tuples / unpackings / callee choices
        return self._post(out)

    def _post(self, stmts):
        res = []
        for s in stmts:
            for field in ("body", "orelse", "finalbody"):
                sub = getattr(s, field, None)
                if isinstance(sub, list) and sub and isinstance(sub[0], ast.stmt):
                    setattr(s, field, self._post(sub))
            if isinstance(s, ast.For) and isinstance(s.target, ast.Name) and s.body:
                # for t in S: a, b = t; ...   ->   for a, b in S: ...   (t not used otherwise)
                first = s.body[0]
                t = s.target.id
                if isinstance(first, ast.Assign) and len(first.targets) == 1 and isinstance(first.targets[0], (ast.Tuple, ast.List)) and isinstance(first.value, ast.Name) and first.value.id == t:
                    others = [n for q in s.body[1:] + s.orelse for n in ast.walk(q) if isinstance(n, ast.Name) and n.id == t]
                    if not others:
                        s.target = first.targets[0]
                        s.body = s.body[1:] or [ast.copy_location(ast.Pass(), s)]
            rr = [s]
            for rewrite in (self._inplace_stmt, self._unpack, self._cond_tuple, self._lift_callee_choice):
                nxt = []
                for q in rr:
                    r = rewrite(q)
                    nxt.extend(r if r is not None else [q])
                rr = nxt
            res.extend(rr)
        return res

    def _inline_def_stmt(self, s, name, defn):
        # nested statements: recurse into blocks
        if isinstance(s, (ast.If, ast.For, ast.While, ast.With)):
            for field in ("body", "orelse"):
                sub = getattr(s, field, None)
                if isinstance(sub, list) and sub and isinstance(sub[0], ast.stmt):
                    new = []
                    for q in sub:
                        r = self._inline_def_stmt(q, name, defn)
                        new.extend(r if r is not None else [q])
                    setattr(s, field, new)
            calls = [n for f in ("test", "iter") if isinstance(getattr(s, f, None), ast.AST) for n in ast.walk(getattr(s, f)) if isinstance(n, ast.Call) and isinstance(n.func, ast.Name) and n.func.id == name]
            return [s] if not calls else None
        call = None
        if isinstance(s, (ast.Assign, ast.Return, ast.Expr)) and isinstance(s.value, ast.Call) and isinstance(s.value.func, ast.Name) and s.value.func.id == name:
            call = s.value
        inner = [n for n in ast.walk(s) if isinstance(n, ast.Call) and isinstance(n.func, ast.Name) and n.func.id == name and n is not call]
        if inner:
            return None
        if call is None:
            return [s]
        a = defn.args
        params = [p.arg for p in a.posonlyargs + a.args]
        defaults = dict(zip(params[len(params) - len(a.defaults):], a.defaults))
        if any(isinstance(x, ast.Starred) for x in call.args) or any(k.arg is None for k in call.keywords) or len(call.args) > len(params):
            return None
        bound = dict(zip(params, call.args))
        for k in call.keywords:
            if k.arg not in params or k.arg in bound:
                return None
            bound[k.arg] = k.value
        for p in params:
            if p not in bound:
                if p not in defaults:
                    return None
                bound[p] = defaults[p]
        body = [copy.deepcopy(x) for x in defn.body if not (isinstance(x, ast.Expr) and isinstance(x.value, ast.Constant))]
        stored = _names_stored(body)
        local = stored | set(params)
        ren = {n: _fresh(n) for n in local}
        # a parameter that is never rebound and receives a plain local name is that name
        direct = {}
        for pn in params:
            if pn not in stored and isinstance(bound[pn], ast.Name) and bound[pn].id not in stored:
                direct[pn] = bound[pn].id
                ren[pn] = bound[pn].id

        class Ren(ast.NodeTransformer):
            def visit_Name(self, n):
                if n.id in ren:
                    n.id = ren[n.id]
                return n

        out = []
        for p in params:
            if p in direct:
                continue
            out.append(ast.Assign(targets=[ast.Name(id=ren[p], ctx=ast.Store())], value=copy.deepcopy(bound[p])))
        for x in body[:-1]:
            out.append(Ren().visit(x))
        ret = Ren().visit(body[-1]).value
        if isinstance(s, ast.Assign):
            out.append(ast.Assign(targets=s.targets, value=ret))
        elif isinstance(s, ast.Return):
            out.append(ast.Return(value=ret))
        else:
            out.append(ast.Expr(value=ret))
        return [ast.fix_missing_locations(ast.copy_location(x, s)) for x in out]


def desugar_module(tree):
    return ast.fix_missing_locations(Desugar().module(tree))
