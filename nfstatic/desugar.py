"""Source-to-source normalisation applied to every module before any analysis (DESIGN 8.9).

The analyses are written for a small core of Python: assignments, if / for / while / with,
calls, comprehensions.  Clean-up PRs use more of the language -- assignment expressions,
conditional tuples, generator unpacking, zip / enumerate over written-out tuples, functools.reduce
/ partial, map with lambdas or attrgetter, operator functions, small local closures, keyword
forwarding through dict(zip(..)) / dict comprehensions, class-level constants.  Each rewrite here
replaces such a construct by core statements with the same meaning, under a side condition that is
checked syntactically; where the condition does not hold the construct is left alone (and an
engine that cannot interpret it reports "undecided", never a finding).

Nothing here looks at names or shapes particular to nflows.
"""

import ast
import copy

_COUNTER = [0]


def _fresh(base):
    _COUNTER[0] += 1
    return "%s__d%d" % (base, _COUNTER[0])


def norm_dump(n):
    return ast.dump(n, annotate_fields=False, include_attributes=False)


def _names_stored(nodes):
    out = set()
    for n in nodes:
        for x in ast.walk(n):
            if isinstance(x, ast.Name) and isinstance(x.ctx, (ast.Store, ast.Del)):
                out.add(x.id)
            elif isinstance(x, (ast.FunctionDef, ast.AsyncFunctionDef, ast.ClassDef)):
                out.add(x.name)
            elif isinstance(x, ast.arg):
                out.add(x.arg)
    return out


def _is_simple(e):
    """cheap, side-effect free, and the same object on every evaluation"""
    if isinstance(e, (ast.Constant, ast.Name)):
        return True
    if isinstance(e, ast.Attribute):
        return _is_simple(e.value)
    if isinstance(e, ast.UnaryOp) and isinstance(e.op, (ast.USub, ast.UAdd, ast.Not)):
        return _is_simple(e.operand)
    if isinstance(e, ast.Tuple):
        return all(_is_simple(x) for x in e.elts)
    return False


def _is_pure(e):
    """built from names, constants, attribute reads, comparisons and arithmetic only (no calls)"""
    for n in ast.walk(e):
        if isinstance(n, (ast.Call, ast.Await, ast.Yield, ast.YieldFrom, ast.NamedExpr, ast.Lambda, ast.ListComp, ast.SetComp, ast.DictComp, ast.GeneratorExp, ast.Starred)):
            return False
    return True


class _Subst(ast.NodeTransformer):
    """replace loads of the given names by (copies of) expressions; stops at scopes that rebind them"""

    def __init__(self, mapping):
        self.mapping = mapping

    def visit_Name(self, n):
        if isinstance(n.ctx, ast.Load) and n.id in self.mapping:
            return ast.copy_location(copy.deepcopy(self.mapping[n.id]), n)
        return n

    def _scoped(self, node, bound):
        inner = {k: v for k, v in self.mapping.items() if k not in bound}
        if not inner:
            return node
        sub = _Subst(inner)
        for field, value in ast.iter_fields(node):
            if isinstance(value, list):
                setattr(node, field, [sub.visit(v) if isinstance(v, ast.AST) else v for v in value])
            elif isinstance(value, ast.AST):
                setattr(node, field, sub.visit(value))
        return node

    def visit_Lambda(self, n):
        bound = {a.arg for a in n.args.posonlyargs + n.args.args + n.args.kwonlyargs}
        if n.args.vararg:
            bound.add(n.args.vararg.arg)
        if n.args.kwarg:
            bound.add(n.args.kwarg.arg)
        return self._scoped(n, bound)

    def _comp(self, n):
        bound = set()
        for g in n.generators:
            bound |= _names_stored([g.target])
        # the first iterable is evaluated in the enclosing scope
        first = self.visit(n.generators[0].iter)
        node = self._scoped(n, bound)
        node.generators[0].iter = first if not bound & set(self.mapping) else node.generators[0].iter
        return node

    visit_ListComp = visit_SetComp = visit_GeneratorExp = visit_DictComp = _comp

    def visit_FunctionDef(self, n):
        return n


def subst(node, mapping):
    return _Subst(mapping).visit(copy.deepcopy(node))


# ---------------------------------------------------------------------------------------------
# expression-level rewrites (bottom-up)
# ---------------------------------------------------------------------------------------------

_OPERATOR_BIN = {"add": ast.Add, "sub": ast.Sub, "mul": ast.Mult, "truediv": ast.Div, "floordiv": ast.FloorDiv, "mod": ast.Mod, "pow": ast.Pow, "matmul": ast.MatMult, "and_": ast.BitAnd, "or_": ast.BitOr, "xor": ast.BitXor}
_OPERATOR_CMP = {"gt": ast.Gt, "ge": ast.GtE, "lt": ast.Lt, "le": ast.LtE, "eq": ast.Eq, "ne": ast.NotEq, "is_": ast.Is, "is_not": ast.IsNot}
_OPERATOR_UN = {"neg": ast.USub, "pos": ast.UAdd, "not_": ast.Not, "invert": ast.Invert, "inv": ast.Invert}


def _dotted(e):
    parts = []
    while isinstance(e, ast.Attribute):
        parts.append(e.attr)
        e = e.value
    if isinstance(e, ast.Name):
        parts.append(e.id)
        return ".".join(reversed(parts))
    return None


class _Expr(ast.NodeTransformer):
    """getattr(o, "c") -> o.c ; operator.f(a, b) -> a <op> b ; (f if c else g)(args) -> f(args) if c else g(args) ;
    (lambda p: E)(args) -> E[p := args] ; map(f, S) -> (f(t) for t in S) ; f(**dict(zip(names, values))) ->
    f(name=value, ..) ; f(**{k: E for k in consts}) -> f(k1=E1, ..) ; self.CONST -> the class-level literal"""

    def __init__(self, imported_operator_names=(), class_consts=None):
        self.opnames = set(imported_operator_names)
        self.class_consts = class_consts or {}

    def visit_Attribute(self, node):
        self.generic_visit(node)
        if isinstance(node.ctx, ast.Load) and isinstance(node.value, ast.Name) and node.value.id in ("self", "cls") and node.attr in self.class_consts:
            return ast.copy_location(copy.deepcopy(self.class_consts[node.attr]), node)
        return node

    def _operator_fn(self, f):
        d = _dotted(f)
        if d is None:
            return None
        if d.startswith("operator."):
            return d[len("operator."):]
        if d in self.opnames:
            return d
        return None

    def visit_Call(self, node):
        self.generic_visit(node)
        f = node.func
        # tensor arithmetic / comparisons / logic spelled as functions or (out-of-place) methods -> operators;
        # x.index_select(d, idx) -> x[:, .., idx]
        r = _tensor_operator_form(node)
        if r is not None:
            return ast.fix_missing_locations(ast.copy_location(r, node))
        # f(*(a, b)) -> f(a, b)
        if any(isinstance(a, ast.Starred) and isinstance(a.value, (ast.Tuple, ast.List)) and not any(isinstance(x, ast.Starred) for x in a.value.elts) for a in node.args):
            new = []
            for a in node.args:
                if isinstance(a, ast.Starred) and isinstance(a.value, (ast.Tuple, ast.List)) and not any(isinstance(x, ast.Starred) for x in a.value.elts):
                    new.extend(a.value.elts)
                else:
                    new.append(a)
            node.args = new
        # tuple(E(t) for t in (a, b)) -> (E(a), E(b))
        if isinstance(f, ast.Name) and f.id in ("tuple", "list") and len(node.args) == 1 and not node.keywords and isinstance(node.args[0], (ast.GeneratorExp, ast.ListComp)) and len(node.args[0].generators) == 1:
            g = node.args[0].generators[0]
            items = _literal_items(g.iter)
            if items is not None and 0 < len(items) <= 8 and not g.ifs and isinstance(g.target, ast.Name):
                uses = sum(1 for x in ast.walk(node.args[0].elt) if isinstance(x, ast.Name) and x.id == g.target.id and isinstance(x.ctx, ast.Load))
                if all(_is_simple(it) or (uses <= 1 and _is_pure(it)) for it in items):
                    elts = [self.visit(subst(node.args[0].elt, {g.target.id: it})) for it in items]
                    cls_ = ast.Tuple if f.id == "tuple" else ast.List
                    return ast.copy_location(cls_(elts=elts, ctx=ast.Load()), node)
        # getattr(obj, "name")
        if isinstance(f, ast.Name) and f.id == "getattr" and len(node.args) == 2 and not node.keywords and isinstance(node.args[1], ast.Constant) and isinstance(node.args[1].value, str) and node.args[1].value.isidentifier():
            return ast.copy_location(ast.Attribute(value=node.args[0], attr=node.args[1].value, ctx=ast.Load()), node)
        # operator functions
        op = self._operator_fn(f)
        if op is not None and not node.keywords and not any(isinstance(a, ast.Starred) for a in node.args):
            if op in _OPERATOR_BIN and len(node.args) == 2:
                return ast.copy_location(ast.BinOp(left=node.args[0], op=_OPERATOR_BIN[op](), right=node.args[1]), node)
            if op in _OPERATOR_CMP and len(node.args) == 2:
                return ast.copy_location(ast.Compare(left=node.args[0], ops=[_OPERATOR_CMP[op]()], comparators=[node.args[1]]), node)
            if op in _OPERATOR_UN and len(node.args) == 1:
                return ast.copy_location(ast.UnaryOp(op=_OPERATOR_UN[op](), operand=node.args[0]), node)
            if op == "getitem" and len(node.args) == 2:
                return ast.copy_location(ast.Subscript(value=node.args[0], slice=node.args[1], ctx=ast.Load()), node)
        # a conditional callee
        if isinstance(f, ast.IfExp):
            a = ast.Call(func=f.body, args=copy.deepcopy(node.args), keywords=copy.deepcopy(node.keywords))
            b = ast.Call(func=f.orelse, args=copy.deepcopy(node.args), keywords=copy.deepcopy(node.keywords))
            out = ast.IfExp(test=f.test, body=self.visit_Call(ast.copy_location(a, node)), orelse=self.visit_Call(ast.copy_location(b, node)))
            out._from_callee = True
            return ast.copy_location(out, node)
        # an immediately applied lambda
        if isinstance(f, ast.Lambda):
            r = _beta(f, node)
            if r is not None:
                return self.visit(ast.copy_location(r, node))
        # map(f, S)
        if isinstance(f, ast.Name) and f.id == "map" and len(node.args) == 2 and not node.keywords:
            fn, seq = node.args
            t = _fresh("t")
            elt = None
            if isinstance(fn, ast.Lambda):
                call = ast.Call(func=fn, args=[ast.Name(id=t, ctx=ast.Load())], keywords=[])
                elt = _beta(fn, call)
            elif isinstance(fn, ast.Call) and _dotted(fn.func) in ("attrgetter", "operator.attrgetter") and len(fn.args) == 1 and isinstance(fn.args[0], ast.Constant) and isinstance(fn.args[0].value, str) and fn.args[0].value.isidentifier():
                elt = ast.Attribute(value=ast.Name(id=t, ctx=ast.Load()), attr=fn.args[0].value, ctx=ast.Load())
            elif isinstance(fn, ast.Call) and _dotted(fn.func) in ("itemgetter", "operator.itemgetter") and len(fn.args) == 1:
                elt = ast.Subscript(value=ast.Name(id=t, ctx=ast.Load()), slice=fn.args[0], ctx=ast.Load())
            elif _is_simple(fn):
                elt = ast.Call(func=fn, args=[ast.Name(id=t, ctx=ast.Load())], keywords=[])
            if elt is not None:
                g = ast.GeneratorExp(elt=elt, generators=[ast.comprehension(target=ast.Name(id=t, ctx=ast.Store()), iter=seq, ifs=[], is_async=0)])
                return ast.fix_missing_locations(ast.copy_location(g, node))
        # keyword forwarding through a literal mapping
        if any(k.arg is None for k in node.keywords):
            kws = []
            changed = False
            for k in node.keywords:
                if k.arg is not None:
                    kws.append(k)
                    continue
                pairs = _literal_mapping(k.value)
                if pairs is None:
                    kws.append(k)
                else:
                    changed = True
                    kws.extend(ast.keyword(arg=name, value=value) for name, value in pairs)
            if changed:
                node.keywords = kws
        return node


_T_BIN = {"add": ast.Add, "sub": ast.Sub, "subtract": ast.Sub, "mul": ast.Mult, "multiply": ast.Mult, "div": ast.Div, "true_divide": ast.Div, "divide": ast.Div, "matmul": ast.MatMult}
_T_CMP = {"ge": ast.GtE, "gt": ast.Gt, "le": ast.LtE, "lt": ast.Lt, "eq": ast.Eq, "ne": ast.NotEq, "greater_equal": ast.GtE, "greater": ast.Gt, "less_equal": ast.LtE, "less": ast.Lt, "not_equal": ast.NotEq}
_T_LOGIC = {"logical_and": ast.BitAnd, "logical_or": ast.BitOr}
_T_UNARY = {"exp", "log", "log1p", "log2", "log10", "abs", "sqrt", "rsqrt", "sigmoid", "tanh", "reciprocal", "sign", "square", "expm1", "floor", "ceil", "diag", "atan", "sin", "cos", "erf"}


def _tensor_operator_form(call):
    """the operator spelling of torch.mul(a, b) / a.mul(b) / torch.ge(a, b) / torch.logical_and(a, b) /
    torch.logical_not(a) / torch.neg(a) / a.index_select(d, idx); None for anything else.  Only the
    out-of-place forms without extra arguments (alpha=, out=, rounding_mode=) are rewritten."""
    f = call.func
    if not isinstance(f, ast.Attribute) or call.keywords and not (f.attr == "index_select"):
        return None
    is_mod = isinstance(f.value, ast.Name) and f.value.id == "torch"
    if isinstance(f.value, ast.Name) and f.value.id in ("np", "math", "operator", "F", "nn", "init", "check", "torchutils", "typechecks", "warnings", "itertools", "functools"):
        return None
    args = list(call.args) if is_mod else [f.value] + list(call.args)
    if any(isinstance(a, ast.Starred) for a in args):
        return None
    name = f.attr
    if name in _T_BIN and len(args) == 2:
        return ast.BinOp(left=args[0], op=_T_BIN[name](), right=args[1])
    if name in _T_CMP and len(args) == 2:
        return ast.Compare(left=args[0], ops=[_T_CMP[name]()], comparators=[args[1]])
    if name in _T_LOGIC and len(args) == 2 and is_mod:
        return ast.BinOp(left=args[0], op=_T_LOGIC[name](), right=args[1])
    if name == "logical_not" and len(args) == 1 and is_mod:
        return ast.UnaryOp(op=ast.Invert(), operand=args[0])
    if name in ("neg", "negative") and len(args) == 1:
        return ast.UnaryOp(op=ast.USub(), operand=args[0])
    if name in _T_UNARY and len(args) == 1 and not is_mod and not call.keywords:
        # x.exp() -> torch.exp(x): the spelling the repository uses throughout
        return ast.Call(func=ast.Attribute(value=ast.Name(id="torch", ctx=ast.Load()), attr=name, ctx=ast.Load()), args=[args[0]], keywords=[])
    if name in ("addcmul", "addcdiv") and len(args) == 3:
        # a + b * c  /  a + b / c   (value=1)
        return ast.BinOp(left=args[0], op=ast.Add(), right=ast.BinOp(left=args[1], op=ast.Mult() if name == "addcmul" else ast.Div(), right=args[2]))
    if name == "index_select":
        kw = {k.arg: k.value for k in call.keywords}
        if len(args) == 3 and not kw:
            x, d, idx = args
        elif len(args) == 1 and set(kw) == {"dim", "index"}:
            x, d, idx = args[0], kw["dim"], kw["index"]
        elif len(args) == 2 and set(kw) == {"index"}:
            x, d, idx = args[0], args[1], kw["index"]
        else:
            return None
        if isinstance(d, ast.Constant) and isinstance(d.value, int) and not isinstance(d.value, bool) and 0 <= d.value <= 4:
            full = [ast.Slice(lower=None, upper=None, step=None) for _ in range(d.value)]
            sl = ast.Tuple(elts=full + [idx], ctx=ast.Load()) if full else idx
            return ast.Subscript(value=x, slice=sl, ctx=ast.Load())
    return None


def _literal_seq(e):
    """the elements of a written-out tuple / list, through `* k` and `+`"""
    if isinstance(e, (ast.Tuple, ast.List)) and not any(isinstance(x, ast.Starred) for x in e.elts):
        return list(e.elts)
    if isinstance(e, ast.BinOp) and isinstance(e.op, ast.Mult):
        for seq, k in ((e.left, e.right), (e.right, e.left)):
            items = _literal_seq(seq)
            if items is not None and isinstance(k, ast.Constant) and isinstance(k.value, int) and not isinstance(k.value, bool) and 0 <= k.value <= 8 and all(_is_simple(x) or isinstance(x, ast.UnaryOp) and _is_simple(x.operand) for x in items):
                return [copy.deepcopy(x) for _ in range(k.value) for x in items]
    if isinstance(e, ast.BinOp) and isinstance(e.op, ast.Add):
        a, b = _literal_seq(e.left), _literal_seq(e.right)
        if a is not None and b is not None:
            return a + b
    return None


def _literal_mapping(e):
    """[(name, value expr)] of dict(zip(("a","b"), (x, y))) / {"a": x, ..} / {k: E for k in ("a","b")} / dict(a=x)"""
    if isinstance(e, ast.Dict) and all(isinstance(k, ast.Constant) and isinstance(k.value, str) and k.value.isidentifier() for k in e.keys):
        return [(k.value, v) for k, v in zip(e.keys, e.values)]
    if isinstance(e, ast.Call) and isinstance(e.func, ast.Name) and e.func.id == "dict":
        if not e.args and all(k.arg for k in e.keywords):
            return [(k.arg, k.value) for k in e.keywords]
        if len(e.args) == 1 and not e.keywords and isinstance(e.args[0], ast.Call) and isinstance(e.args[0].func, ast.Name) and e.args[0].func.id == "zip" and len(e.args[0].args) == 2:
            ks, vs = _literal_seq(e.args[0].args[0]), _literal_seq(e.args[0].args[1])
            if ks is not None and vs is not None and len(ks) == len(vs) and all(isinstance(k, ast.Constant) and isinstance(k.value, str) and k.value.isidentifier() for k in ks):
                return [(k.value, v) for k, v in zip(ks, vs)]
    if isinstance(e, ast.DictComp) and len(e.generators) == 1 and not e.generators[0].ifs and isinstance(e.generators[0].target, ast.Name):
        it = e.generators[0].iter
        t = e.generators[0].target.id
        if isinstance(it, (ast.Tuple, ast.List)) and it.elts and all(isinstance(k, ast.Constant) and isinstance(k.value, str) and k.value.isidentifier() for k in it.elts) and isinstance(e.key, ast.Name) and e.key.id == t:
            out = []
            for k in it.elts:
                v = _Expr().visit(subst(e.value, {t: k}))
                out.append((k.value, v))
            return out
    return None


def _beta(lam, call):
    """E[params := args] for (lambda params: E)(args), or None when that would duplicate or reorder work"""
    a = lam.args
    if a.vararg or a.kwarg or a.kwonlyargs or any(isinstance(x, ast.Starred) for x in call.args) or any(k.arg is None for k in call.keywords):
        return None
    params = [p.arg for p in a.posonlyargs + a.args]
    defaults = dict(zip(params[len(params) - len(a.defaults):], a.defaults))
    bound = {}
    if len(call.args) > len(params):
        return None
    for p, v in zip(params, call.args):
        bound[p] = v
    for k in call.keywords:
        if k.arg not in params or k.arg in bound:
            return None
        bound[k.arg] = k.value
    for p in params:
        if p not in bound:
            if p not in defaults:
                return None
            bound[p] = defaults[p]
    uses = {}
    for n in ast.walk(lam.body):
        if isinstance(n, ast.Name) and isinstance(n.ctx, ast.Load) and n.id in bound:
            uses[n.id] = uses.get(n.id, 0) + 1
    for p, v in bound.items():
        if not _is_simple(v) and uses.get(p, 0) > 1:
            return None
    return subst(lam.body, bound)


# ---------------------------------------------------------------------------------------------
# statement-level rewrites
# ---------------------------------------------------------------------------------------------


def _own(body, kind):
    """break / continue statements that belong to the loop whose body this is"""
    out = []
    stack = list(body)
    while stack:
        n = stack.pop()
        if isinstance(n, kind):
            out.append(n)
        if isinstance(n, (ast.For, ast.While, ast.FunctionDef, ast.AsyncFunctionDef, ast.Lambda, ast.ClassDef)):
            continue
        stack.extend(ast.iter_child_nodes(n))
    return out


def _literal_items(it):
    """the written-out items a loop runs over: (a, b) / [a, b] / zip((a, b), (c, d)) / enumerate((a, b))"""
    seq = _literal_seq(it)
    if seq is not None:
        return seq
    if isinstance(it, ast.Call) and isinstance(it.func, ast.Name) and not it.keywords:
        if it.func.id == "range" and 1 <= len(it.args) <= 3 and all(isinstance(a, ast.Constant) and isinstance(a.value, int) and not isinstance(a.value, bool) or (isinstance(a, ast.UnaryOp) and isinstance(a.op, ast.USub) and isinstance(a.operand, ast.Constant) and isinstance(a.operand.value, int)) for a in it.args):
            vals = [a.value if isinstance(a, ast.Constant) else -a.operand.value for a in it.args]
            try:
                r = range(*vals)
            except ValueError:
                return None
            if len(r) <= 8:
                return [ast.Constant(value=i) for i in r]
            return None
        if it.func.id == "zip" and it.args:
            cols = [_literal_items(a) for a in it.args]
            if all(c is not None for c in cols) and len({len(c) for c in cols}) == 1:
                return [ast.Tuple(elts=list(row), ctx=ast.Load()) for row in zip(*cols)]
        if it.func.id == "enumerate" and len(it.args) == 1:
            items = _literal_items(it.args[0])
            if items is not None:
                return [ast.Tuple(elts=[ast.Constant(value=i), e], ctx=ast.Load()) for i, e in enumerate(items)]
        if it.func.id in ("reversed",) and len(it.args) == 1:
            items = _literal_items(it.args[0])
            if items is not None:
                return list(reversed(items))
        if it.func.id in ("list", "tuple", "iter") and len(it.args) == 1:
            return _literal_items(it.args[0])
    return None


def _bind(target, value, like, body, single_use=False):
    """statements that bind the loop target to one written-out item, and the substitution that may
    be applied to the body instead (for constants / names / lambdas, when the body does not rebind)"""
    stmts, mapping = [], {}
    rebound = _names_stored(body)

    def rec(t, v):
        if isinstance(t, ast.Name):
            sub_ok = isinstance(v, (ast.Constant, ast.Lambda)) or (isinstance(v, ast.Name) and v.id not in rebound) or (isinstance(v, ast.UnaryOp) and isinstance(v.operand, ast.Constant))
            if not sub_ok and single_use and (_is_simple(v) or _is_pure(v)):
                # read once either way: substituting the attribute chain keeps the number of evaluations
                uses = sum(1 for b in body for x in ast.walk(b) if isinstance(x, ast.Name) and x.id == t.id and isinstance(x.ctx, ast.Load))
                sub_ok = uses <= 1
            if sub_ok and t.id not in rebound:
                mapping[t.id] = v
                if not isinstance(v, ast.Lambda):
                    stmts.append(ast.copy_location(ast.Assign(targets=[ast.Name(id=t.id, ctx=ast.Store())], value=copy.deepcopy(v)), like))
            else:
                stmts.append(ast.copy_location(ast.Assign(targets=[ast.Name(id=t.id, ctx=ast.Store())], value=copy.deepcopy(v)), like))
            return
        if isinstance(t, (ast.Tuple, ast.List)) and isinstance(v, (ast.Tuple, ast.List)) and len(t.elts) == len(v.elts) and not any(isinstance(x, ast.Starred) for x in list(t.elts) + list(v.elts)):
            for tt, vv in zip(t.elts, v.elts):
                rec(tt, vv)
            return
        tgt = copy.deepcopy(t)
        for x in ast.walk(tgt):
            if hasattr(x, "ctx"):
                x.ctx = ast.Store()
        stmts.append(ast.copy_location(ast.Assign(targets=[tgt], value=copy.deepcopy(v)), like))

    rec(target, value)
    return stmts, mapping


class Desugar:
    def __init__(self):
        self.opnames = set()

    # -- entry ---------------------------------------------------------------------------------
    def module(self, tree):
        for st in tree.body:
            if isinstance(st, ast.ImportFrom) and st.module == "operator":
                for al in st.names:
                    self.opnames.add(al.asname or al.name)
        tree.body = self.block(tree.body, None, None)
        return tree

    def _class_consts(self, cls):
        consts = {}
        assigned_on_self = set()
        for n in ast.walk(cls):
            if isinstance(n, ast.Attribute) and isinstance(n.ctx, (ast.Store, ast.Del)) and isinstance(n.value, ast.Name) and n.value.id in ("self", "cls"):
                assigned_on_self.add(n.attr)
            if isinstance(n, ast.Call) and isinstance(n.func, ast.Name) and n.func.id == "setattr":
                return {}
        for st in cls.body:
            if isinstance(st, ast.Assign) and len(st.targets) == 1 and isinstance(st.targets[0], ast.Name):
                v = st.value
                if isinstance(v, (ast.Tuple, ast.List)) and v.elts and all(isinstance(e, ast.Constant) for e in v.elts):
                    consts[st.targets[0].id] = v
        for k in list(consts):
            if k in assigned_on_self or not k.isupper() and not k.startswith("_"):
                del consts[k]
        return consts

    def block(self, stmts, fn, cls, tuples=None):
        out = []
        tuples = dict(tuples or {})
        for st in stmts:
            if isinstance(st, ast.For) and tuples:
                st.iter = self._resolve_tuple_names(st.iter, tuples)
            res = self.stmt(st, fn, cls, tuples)
            out.extend(res)
            # written-out tuples bound to local names, valid until a constituent is rebound
            for r in res:
                stored = _names_stored([r])
                stored_attrs = {x.attr for x in ast.walk(r) if isinstance(x, ast.Attribute) and isinstance(x.ctx, (ast.Store, ast.Del))}
                for k in list(tuples):
                    roots = {x.id for x in ast.walk(tuples[k]) if isinstance(x, ast.Name)}
                    attrs = {x.attr for x in ast.walk(tuples[k]) if isinstance(x, ast.Attribute)}
                    if k in stored or (roots - {"self", "cls"}) & stored or attrs & stored_attrs:
                        del tuples[k]
                if isinstance(r, ast.Assign) and len(r.targets) == 1 and isinstance(r.targets[0], ast.Name) and isinstance(r.value, (ast.Tuple, ast.List)) and r.value.elts and all(_is_simple(e) for e in r.value.elts) and fn is not None:
                    tuples[r.targets[0].id] = r.value
        if fn is not None:
            out = self._local_callables(out)
        return out

    def _resolve_tuple_names(self, it, tuples):
        if isinstance(it, ast.Name) and it.id in tuples:
            return copy.deepcopy(tuples[it.id])
        if isinstance(it, ast.Call) and isinstance(it.func, ast.Name) and it.func.id in ("zip", "enumerate", "reversed", "list", "tuple", "iter") and not it.keywords:
            it.args = [self._resolve_tuple_names(a, tuples) for a in it.args]
        return it

    def stmt(self, st, fn, cls, tuples=None):
        if isinstance(st, ast.ClassDef):
            st.body = self.block(st.body, None, st)
            return [st]
        if isinstance(st, (ast.FunctionDef, ast.AsyncFunctionDef)):
            saved = getattr(self, "_consts", {})
            if cls is not None:
                self._consts = self._class_consts(cls)
            st.body = self.block(st.body, st, None)
            self._consts = saved
            return [st]
        # nested blocks first
        for field in ("body", "orelse", "finalbody"):
            sub = getattr(st, field, None)
            if isinstance(sub, list) and sub and isinstance(sub[0], ast.stmt):
                setattr(st, field, self.block(sub, fn, cls, tuples))
        if isinstance(st, ast.Try):
            for h in st.handlers:
                h.body = self.block(h.body, fn, cls)
        # expressions of this statement (not of nested statements)
        ex = _Expr(self.opnames, getattr(self, "_consts", {}))
        for field, value in ast.iter_fields(st):
            if field in ("body", "orelse", "finalbody", "handlers"):
                continue
            if isinstance(value, ast.AST):
                setattr(st, field, ex.visit(value))
            elif isinstance(value, list):
                setattr(st, field, [ex.visit(v) if isinstance(v, ast.AST) else v for v in value])
        res = [st]
        for rewrite in (self._index_copy, self._chain, self._walrus, self._reduce, self._for, self._unpack, self._cond_tuple, self._lift_callee_choice):
            nxt = []
            for s in res:
                r = rewrite(s)
                nxt.extend(r if r is not None else [s])
            res = nxt
        return res

    # -- assignment expressions ------------------------------------------------------------------
    def _walrus(self, st):
        if not isinstance(st, (ast.Assign, ast.AugAssign, ast.AnnAssign, ast.Expr, ast.Return, ast.If, ast.Raise, ast.Assert)):
            return None
        roots = [getattr(st, f) for f in ("value", "test", "exc", "msg") if isinstance(getattr(st, f, None), ast.AST)]

        def pure_read(e):
            if isinstance(e, (ast.Name, ast.Constant)):
                return True
            if isinstance(e, ast.Attribute):
                return pure_read(e.value)
            if isinstance(e, ast.Subscript):
                return pure_read(e.value) and pure_read(e.slice)
            return False

        if not any(isinstance(x, ast.NamedExpr) for r in roots for x in ast.walk(r)):
            return None
        # every assignment expression must be reached unconditionally, and only pure reads may
        # be evaluated before it
        order = []

        def linear(e, cond, before_pure):
            """yields (NamedExpr, conditional?, everything evaluated before it is a pure read?)"""
            if isinstance(e, ast.NamedExpr):
                pure_before = before_pure[0]
                linear(e.value, cond, before_pure)
                order.append((e, cond, pure_before))
                before_pure[0] = False  # the value was computed
                return
            if pure_read(e):
                return
            if isinstance(e, (ast.Lambda, ast.ListComp, ast.SetComp, ast.DictComp, ast.GeneratorExp)):
                for x in ast.walk(e):
                    if isinstance(x, ast.NamedExpr):
                        order.append((x, True, False))
                before_pure[0] = False
                return
            if isinstance(e, ast.BoolOp):
                linear(e.values[0], cond, before_pure)
                for v in e.values[1:]:
                    linear(v, True, before_pure)
                before_pure[0] = False
                return
            if isinstance(e, ast.IfExp):
                linear(e.test, cond, before_pure)
                linear(e.body, True, before_pure)
                linear(e.orelse, True, before_pure)
                before_pure[0] = False
                return
            for c in ast.iter_child_nodes(e):
                if isinstance(c, ast.expr):
                    linear(c, cond, before_pure)
            if not isinstance(e, (ast.Tuple, ast.List, ast.Starred, ast.keyword)):
                before_pure[0] = False

        state = [True]
        for r in roots:
            linear(r, False, state)
        # exactly one assignment expression, reached unconditionally, with only pure reads evaluated before it
        if len(order) != 1 or order[0][1] or not order[0][2]:
            return None
        ne = order[0][0]
        name = ne.target.id
        assign = ast.copy_location(ast.Assign(targets=[ast.Name(id=name, ctx=ast.Store())], value=ne.value), st)

        class Rep(ast.NodeTransformer):
            def visit_NamedExpr(self, n):
                if n is ne:
                    return ast.copy_location(ast.Name(id=name, ctx=ast.Load()), n)
                return self.generic_visit(n)

        Rep().visit(st)
        return [assign, st]

    # -- functools.reduce -----------------------------------------------------------------------------
    def _reduce(self, st):
        if not isinstance(st, (ast.Assign, ast.Return)) or not isinstance(st.value, ast.Call):
            return None
        c = st.value
        if _dotted(c.func) not in ("reduce", "functools.reduce") or len(c.args) != 3 or c.keywords:
            return None
        fn, seq, init = c.args
        acc, item = _fresh("acc"), _fresh("item")
        call = ast.Call(func=fn, args=[ast.Name(id=acc, ctx=ast.Load()), ast.Name(id=item, ctx=ast.Load())], keywords=[])
        if isinstance(fn, ast.Lambda):
            b = _beta(fn, call)
            call = b if b is not None else call
        body = ast.Assign(targets=[ast.Name(id=acc, ctx=ast.Store())], value=call)
        loop = ast.For(target=ast.Name(id=item, ctx=ast.Store()), iter=seq, body=[body], orelse=[])
        first = ast.Assign(targets=[ast.Name(id=acc, ctx=ast.Store())], value=init)
        if isinstance(st, ast.Assign):
            last = ast.Assign(targets=st.targets, value=ast.Name(id=acc, ctx=ast.Load()))
        else:
            last = ast.Return(value=ast.Name(id=acc, ctx=ast.Load()))
        out = [ast.fix_missing_locations(ast.copy_location(x, st)) for x in (first, loop, last)]
        # the new loop may itself run over written-out items
        res = []
        for s in out:
            r = self._for(s) if isinstance(s, ast.For) else None
            res.extend(r if r is not None else [s])
        return res

    # -- loops over written-out items ----------------------------------------------------------------
    def _for(self, st):
        if not isinstance(st, ast.For):
            return None
        it = st.iter
        # itertools.repeat(None, n) only counts
        if isinstance(it, ast.Call) and _dotted(it.func) in ("repeat", "itertools.repeat") and len(it.args) == 2 and isinstance(it.args[0], ast.Constant) and it.args[0].value is None:
            st.iter = ast.copy_location(ast.Call(func=ast.Name(id="range", ctx=ast.Load()), args=[it.args[1]], keywords=[]), it)
            return [st]
        items = _literal_items(it)
        if items is None or not (0 < len(items) <= 8):
            return None
        breaks, conts = _own(st.body, ast.Break), _own(st.body, ast.Continue)
        if conts:
            return None
        if not breaks:
            out = []
            for v in items:
                binds, mapping = _bind(st.target, v, st, st.body, single_use=True)
                # a substituted name needs no binding statement
                binds = [b for b in binds if not (isinstance(b.targets[0], ast.Name) and b.targets[0].id in mapping and not isinstance(mapping[b.targets[0].id], (ast.Constant, ast.Name)))]
                out.extend(binds)
                for b in st.body:
                    nb = subst(b, mapping) if mapping else copy.deepcopy(b)
                    out.extend(self.stmt(nb, None, None) if mapping else [nb])
            out.extend(st.orelse)
            return out
        last = st.body[-1]
        if len(breaks) != 1 or not isinstance(last, ast.If) or last.orelse or not last.body or last.body[-1] is not breaks[0]:
            return None
        chain = list(st.orelse)
        for v in reversed(items):
            binds, mapping = _bind(st.target, v, st, st.body)
            pre = [subst(s, mapping) if mapping else copy.deepcopy(s) for s in st.body[:-1]]
            taken = [subst(s, mapping) if mapping else copy.deepcopy(s) for s in last.body[:-1]] or [ast.copy_location(ast.Pass(), last)]
            test = subst(last.test, mapping) if mapping else copy.deepcopy(last.test)
            if mapping:
                ex = _Expr(self.opnames, getattr(self, "_consts", {}))
                test = ex.visit(test)
                pre = [y for s in pre for y in self.stmt(s, None, None)]
                taken = [y for s in taken for y in self.stmt(s, None, None)]
            iff = ast.copy_location(ast.If(test=test, body=taken, orelse=chain), last)
            chain = binds + pre + [iff]
        return chain

    # -- unpacking a generator / comprehension over written-out items -----------------------------------
    def _unpack(self, st):
        if not (isinstance(st, ast.Assign) and len(st.targets) == 1 and isinstance(st.targets[0], (ast.Tuple, ast.List))):
            return None
        tg = st.targets[0]
        v = st.value
        if isinstance(v, ast.Call) and isinstance(v.func, ast.Name) and v.func.id in ("tuple", "list") and len(v.args) == 1 and not v.keywords:
            v = v.args[0]
        if not isinstance(v, (ast.GeneratorExp, ast.ListComp)) or len(v.generators) != 1:
            return None
        g = v.generators[0]
        if g.ifs or g.is_async:
            return None
        items = _literal_items(g.iter)
        if items is None or len(items) != len(tg.elts) or any(isinstance(t, ast.Starred) for t in tg.elts):
            return None
        out = []
        tmp = []
        for t, item in zip(tg.elts, items):
            binds, mapping = _bind(g.target, item, st, [v.elt], single_use=True)
            names = _names_stored([g.target])
            # every loop variable must be substituted or bound to a fresh name (the comprehension has its own scope)
            ren = {}
            pre = []
            for b in binds:
                if isinstance(b.targets[0], ast.Name) and b.targets[0].id in mapping:
                    continue
                for x in ast.walk(b.targets[0]):
                    if isinstance(x, ast.Name):
                        ren.setdefault(x.id, _fresh(x.id))
                        x.id = ren[x.id]
                pre.append(b)
            m2 = dict(mapping)
            for old, new in ren.items():
                m2[old] = ast.Name(id=new, ctx=ast.Load())
            val = subst(v.elt, m2)
            val = _Expr(self.opnames, getattr(self, "_consts", {})).visit(val)
            out.extend(pre)
            name = _fresh("u")
            tmp.append(name)
            out.append(ast.copy_location(ast.Assign(targets=[ast.Name(id=name, ctx=ast.Store())], value=val), st))
        # when no element reads what an earlier target writes, assign directly (keeps `self.a = Ctor(..)` visible)
        tnames = set()
        for t in tg.elts:
            for x in ast.walk(t):
                if isinstance(x, ast.Name):
                    tnames.add(x.id)
                elif isinstance(x, ast.Attribute):
                    tnames.add(x.attr)
        values = [s_ for s_ in out if isinstance(s_, ast.Assign) and isinstance(s_.targets[0], ast.Name) and s_.targets[0].id in tmp]
        reads = set()
        for s_ in values:
            for x in ast.walk(s_.value):
                if isinstance(x, ast.Name):
                    reads.add(x.id)
                elif isinstance(x, ast.Attribute):
                    reads.add(x.attr)
        if not (tnames & reads):
            direct = []
            it_t = iter(tg.elts)
            for s_ in out:
                if s_ in values:
                    direct.append(ast.copy_location(ast.Assign(targets=[copy.deepcopy(next(it_t))], value=s_.value), st))
                else:
                    direct.append(s_)
            return [ast.fix_missing_locations(x) for x in direct]
        for t, name in zip(tg.elts, tmp):
            tt = copy.deepcopy(t)
            out.append(ast.copy_location(ast.Assign(targets=[tt], value=ast.Name(id=name, ctx=ast.Load())), st))
        return [ast.fix_missing_locations(x) for x in out]

    # -- a conditional callee: lift the choice to the statement ------------------------------------------
    def _lift_callee_choice(self, st):
        if not isinstance(st, (ast.Assign, ast.AugAssign, ast.Return, ast.Expr)) or st.value is None:
            return None
        marked = [n for n in ast.walk(st.value) if isinstance(n, ast.IfExp) and getattr(n, "_from_callee", False)]
        if len(marked) != 1 or not _is_simple(marked[0].test):
            return None
        m = marked[0]
        for n in ast.walk(st.value):
            if isinstance(n, (ast.Lambda, ast.ListComp, ast.SetComp, ast.DictComp, ast.GeneratorExp)) and any(x is m for x in ast.walk(n)):
                return None

        def variant(branch):
            class Rep(ast.NodeTransformer):
                def visit_IfExp(self, n):
                    if getattr(n, "_from_callee", False) and norm_dump(n) == norm_dump(m):
                        return copy.deepcopy(branch)
                    return self.generic_visit(n)

            c = copy.deepcopy(st)
            for a, b in zip(ast.walk(st), ast.walk(c)):
                if getattr(a, "_from_callee", False):
                    b._from_callee = True
            return Rep().visit(c)

        a, b = variant(m.body), variant(m.orelse)
        return [ast.fix_missing_locations(ast.copy_location(ast.If(test=copy.deepcopy(m.test), body=[a], orelse=[b]), st))]

    # -- out.index_copy_(d, idx, v) as a statement: out[:, idx] = v ---------------------------------------
    def _index_copy(self, st):
        if not (isinstance(st, ast.Expr) and isinstance(st.value, ast.Call) and isinstance(st.value.func, ast.Attribute) and st.value.func.attr == "index_copy_" and len(st.value.args) == 3 and not st.value.keywords):
            return None
        d, idx, v = st.value.args
        if not (isinstance(d, ast.Constant) and isinstance(d.value, int) and not isinstance(d.value, bool) and 0 <= d.value <= 4):
            return None
        full = [ast.Slice(lower=None, upper=None, step=None) for _ in range(d.value)]
        sl = ast.Tuple(elts=full + [idx], ctx=ast.Load()) if full else idx
        tgt = ast.Subscript(value=st.value.func.value, slice=sl, ctx=ast.Store())
        return [ast.fix_missing_locations(ast.copy_location(ast.Assign(targets=[tgt], value=v), st))]

    # -- chain assignment of a tuple display: a = b, c = X, Y  ->  b, c = X, Y ; a = (b, c) ------------------
    def _chain(self, st):
        if not (isinstance(st, ast.Assign) and len(st.targets) == 2 and isinstance(st.value, ast.Tuple)):
            return None
        t0, t1 = st.targets
        if isinstance(t0, ast.Name) and isinstance(t1, ast.Tuple) and len(t1.elts) == len(st.value.elts) and all(isinstance(x, ast.Name) for x in t1.elts) and t0.id not in {x.id for x in t1.elts}:
            first = ast.copy_location(ast.Assign(targets=[t1], value=st.value), st)
            second = ast.copy_location(ast.Assign(targets=[t0], value=ast.Tuple(elts=[ast.Name(id=x.id, ctx=ast.Load()) for x in t1.elts], ctx=ast.Load())), st)
            return [ast.fix_missing_locations(first), ast.fix_missing_locations(second)]
        return None

    # -- conditional tuples ------------------------------------------------------------------------------
    def _cond_tuple(self, st):
        if isinstance(st, ast.Assign) and isinstance(st.value, ast.IfExp) and len(st.targets) == 1:
            v = st.value
            tuple_target = isinstance(st.targets[0], (ast.Tuple, ast.List))
            tuple_values = isinstance(v.body, ast.Tuple) and isinstance(v.orelse, ast.Tuple)
            # self.x = A if c else B : the attribute has two alternative definitions
            attr_target = isinstance(st.targets[0], ast.Attribute) and isinstance(st.targets[0].value, ast.Name) and st.targets[0].value.id == "self"
            if not (tuple_target or tuple_values or attr_target):
                return None
            a = ast.copy_location(ast.Assign(targets=copy.deepcopy(st.targets), value=v.body), st)
            b = ast.copy_location(ast.Assign(targets=copy.deepcopy(st.targets), value=v.orelse), st)
            ra = self._cond_tuple(a) or [a]
            rb = self._cond_tuple(b) or [b]
            return [ast.copy_location(ast.If(test=v.test, body=ra, orelse=rb), st)]
        return None

    # -- local lambdas, closures, partials ------------------------------------------------------------------
    def _local_callables(self, stmts):
        """Within one block: `f = lambda ..: E`, `def f(..): return E` (or a straight-line body ending in
        one return) and `f = partial(g, ..)` bound once, used only by calling -- the calls are expanded."""
        changed = True
        rounds = 0
        while changed and rounds < 6:
            changed = False
            rounds += 1
            for i, st in enumerate(stmts):
                name, kind = None, None
                if isinstance(st, ast.Assign) and len(st.targets) == 1 and isinstance(st.targets[0], ast.Name):
                    if isinstance(st.value, ast.Lambda):
                        name, kind = st.targets[0].id, "lambda"
                    elif isinstance(st.value, ast.Call) and _dotted(st.value.func) in ("partial", "functools.partial") and st.value.args:
                        name, kind = st.targets[0].id, "partial"
                    elif _literal_mapping(st.value) is not None:
                        r = self._expand_kwdict(stmts, i, st.targets[0].id, _literal_mapping(st.value))
                        if r is not None:
                            stmts = r
                            changed = True
                            break
                        continue
                    elif isinstance(st.value, ast.IfExp) and all(isinstance(x, (ast.Attribute, ast.Name)) for x in (st.value.body, st.value.orelse)) and (_dotted(st.value.body) or "").split(".")[0] in ("operator", "torch", "super") or (isinstance(st.value, ast.IfExp) and all(isinstance(x, ast.Attribute) and isinstance(x.value, ast.Call) and isinstance(x.value.func, ast.Name) and x.value.func.id == "super" for x in (st.value.body, st.value.orelse))):
                        name, kind = st.targets[0].id, "ifexp"
                elif isinstance(st, ast.FunctionDef) and not st.decorator_list and self._inlinable_def(st):
                    name, kind = st.name, "def"
                if name is None:
                    continue
                rest = stmts[i + 1 :]
                # bound once in this block (and not in nested scopes that could see it), used only as a callee
                others = [s for j, s in enumerate(stmts) if j != i]
                if name in _names_stored(others):
                    continue
                uses = [n for s in rest for n in ast.walk(s) if isinstance(n, ast.Name) and n.id == name and isinstance(n.ctx, ast.Load)]
                if not uses:
                    continue
                callee_uses = {id(n.func) for s in rest for n in ast.walk(s) if isinstance(n, ast.Call) and isinstance(n.func, ast.Name) and n.func.id == name}
                if any(id(u) not in callee_uses for u in uses):
                    continue
                earlier = [n for s in stmts[:i] for n in ast.walk(s) if isinstance(n, ast.Name) and n.id == name]
                if earlier:
                    continue
                new_rest = self._expand_calls(rest, name, kind, st)
                if new_rest is None:
                    continue
                stmts = stmts[:i] + new_rest
                changed = True
                break
        return stmts

    def _expand_kwdict(self, stmts, i, name, pairs):
        """`d = {..literal keys..}` used only as `f(**d)` later in the block: the keywords written out"""
        others = [s for j, s in enumerate(stmts) if j != i]
        if name in _names_stored(others):
            return None
        rest = stmts[i + 1 :]
        uses = [n for s in rest for n in ast.walk(s) if isinstance(n, ast.Name) and n.id == name and isinstance(n.ctx, ast.Load)]
        star_uses = {id(k.value) for s in rest for n in ast.walk(s) if isinstance(n, ast.Call) for k in n.keywords if k.arg is None and isinstance(k.value, ast.Name) and k.value.id == name}
        if not uses or any(id(u) not in star_uses for u in uses) or len(uses) != 1:
            return None
        if any(isinstance(n, ast.Name) and n.id == name for s in stmts[:i] for n in ast.walk(s)):
            return None
        # the values are evaluated where the dict was built: keep that order by binding them there
        binds, kws = [], []
        for k, v in pairs:
            if _is_simple(v):
                kws.append((k, v))
            else:
                t = _fresh(k)
                binds.append(ast.fix_missing_locations(ast.copy_location(ast.Assign(targets=[ast.Name(id=t, ctx=ast.Store())], value=v), stmts[i])))
                kws.append((k, ast.Name(id=t, ctx=ast.Load())))

        class Rep(ast.NodeTransformer):
            def visit_Call(self, n):
                self.generic_visit(n)
                new = []
                for k in n.keywords:
                    if k.arg is None and isinstance(k.value, ast.Name) and k.value.id == name:
                        new.extend(ast.keyword(arg=kk, value=copy.deepcopy(vv)) for kk, vv in kws)
                    else:
                        new.append(k)
                n.keywords = new
                return n

        return stmts[:i] + binds + [ast.fix_missing_locations(Rep().visit(s)) for s in rest]

    def _inlinable_def(self, fn):
        a = fn.args
        if a.vararg or a.kwarg or a.kwonlyargs:
            return False
        body = [s for s in fn.body if not (isinstance(s, ast.Expr) and isinstance(s.value, ast.Constant))]
        if not body or not isinstance(body[-1], ast.Return) or body[-1].value is None:
            return False
        for s in body[:-1]:
            if not isinstance(s, (ast.Assign, ast.AugAssign, ast.Expr)):
                return False
        for n in ast.walk(fn):
            if isinstance(n, (ast.Yield, ast.YieldFrom, ast.Nonlocal, ast.Global, ast.Await)) or (isinstance(n, (ast.FunctionDef, ast.Lambda)) and n is not fn):
                return False
            if isinstance(n, ast.Return) and n is not body[-1]:
                return False
            if isinstance(n, ast.Name) and n.id == fn.name:
                return False  # recursive
        return True

    def _expand_calls(self, rest, name, kind, defn):
        """the statements `rest` with every call of `name` expanded, or None when some call cannot be"""
        ex = _Expr(self.opnames, getattr(self, "_consts", {}))
        failed = []

        def expr_form(call):
            if kind == "lambda":
                return _beta(defn.value, call)
            if kind == "partial":
                p = defn.value
                if not all(_is_simple(a) or isinstance(a, ast.Constant) for a in p.args[1:]) or not all(_is_simple(k.value) or isinstance(k.value, (ast.Constant, ast.Call, ast.Attribute, ast.BinOp)) for k in p.keywords):
                    pass
                return ast.Call(func=copy.deepcopy(p.args[0]), args=[copy.deepcopy(a) for a in p.args[1:]] + list(call.args), keywords=[copy.deepcopy(k) for k in p.keywords] + list(call.keywords))
            if kind == "ifexp":
                v = defn.value
                if not _is_simple(v.test):
                    return None
                a = ast.Call(func=copy.deepcopy(v.body), args=copy.deepcopy(call.args), keywords=copy.deepcopy(call.keywords))
                b = ast.Call(func=copy.deepcopy(v.orelse), args=copy.deepcopy(call.args), keywords=copy.deepcopy(call.keywords))
                out = ast.IfExp(test=copy.deepcopy(v.test), body=a, orelse=b)
                out._from_callee = True
                return out
            if kind == "def":
                body = [s for s in defn.body if not (isinstance(s, ast.Expr) and isinstance(s.value, ast.Constant))]
                if len(body) == 1:
                    lam = ast.Lambda(args=defn.args, body=body[0].value)
                    return _beta(lam, call)
                return None
            return None

        class Rep(ast.NodeTransformer):
            def visit_Call(self, n):
                self.generic_visit(n)
                if isinstance(n.func, ast.Name) and n.func.id == name:
                    r = expr_form(n)
                    if r is None:
                        failed.append(n)
                        return n
                    return ex.visit(ast.fix_missing_locations(ast.copy_location(r, n)))
                return n

        out = []
        for s in rest:
            # statement-level expansion of a multi-statement closure: T = f(args) / return f(args) / f(args)
            if kind == "def" and len([x for x in defn.body if not (isinstance(x, ast.Expr) and isinstance(x.value, ast.Constant))]) > 1:
                r = self._inline_def_stmt(s, name, defn)
                if r is not None:
                    out.extend(r)
                    continue
            s2 = Rep().visit(s)
            out.append(s2)
        if failed:
            return None
        # the expansion may have produced new conditional tuples / unpackings / callee choices
        return self._post(out)

    def _post(self, stmts):
        res = []
        for s in stmts:
            for field in ("body", "orelse", "finalbody"):
                sub = getattr(s, field, None)
                if isinstance(sub, list) and sub and isinstance(sub[0], ast.stmt):
                    setattr(s, field, self._post(sub))
            if isinstance(s, ast.For) and isinstance(s.target, ast.Name) and s.body:
                # for t in S: a, b = t; ...   ->   for a, b in S: ...   (t not used otherwise)
                first = s.body[0]
                t = s.target.id
                if isinstance(first, ast.Assign) and len(first.targets) == 1 and isinstance(first.targets[0], (ast.Tuple, ast.List)) and isinstance(first.value, ast.Name) and first.value.id == t:
                    others = [n for q in s.body[1:] + s.orelse for n in ast.walk(q) if isinstance(n, ast.Name) and n.id == t]
                    if not others:
                        s.target = first.targets[0]
                        s.body = s.body[1:] or [ast.copy_location(ast.Pass(), s)]
            rr = [s]
            for rewrite in (self._unpack, self._cond_tuple, self._lift_callee_choice):
                nxt = []
                for q in rr:
                    r = rewrite(q)
                    nxt.extend(r if r is not None else [q])
                rr = nxt
            res.extend(rr)
        return res

    def _inline_def_stmt(self, s, name, defn):
        # nested statements: recurse into blocks
        if isinstance(s, (ast.If, ast.For, ast.While, ast.With)):
            for field in ("body", "orelse"):
                sub = getattr(s, field, None)
                if isinstance(sub, list) and sub and isinstance(sub[0], ast.stmt):
                    new = []
                    for q in sub:
                        r = self._inline_def_stmt(q, name, defn)
                        new.extend(r if r is not None else [q])
                    setattr(s, field, new)
            calls = [n for f in ("test", "iter") if isinstance(getattr(s, f, None), ast.AST) for n in ast.walk(getattr(s, f)) if isinstance(n, ast.Call) and isinstance(n.func, ast.Name) and n.func.id == name]
            return [s] if not calls else None
        call = None
        if isinstance(s, (ast.Assign, ast.Return, ast.Expr)) and isinstance(s.value, ast.Call) and isinstance(s.value.func, ast.Name) and s.value.func.id == name:
            call = s.value
        inner = [n for n in ast.walk(s) if isinstance(n, ast.Call) and isinstance(n.func, ast.Name) and n.func.id == name and n is not call]
        if inner:
            return None
        if call is None:
            return [s]
        a = defn.args
        params = [p.arg for p in a.posonlyargs + a.args]
        defaults = dict(zip(params[len(params) - len(a.defaults):], a.defaults))
        if any(isinstance(x, ast.Starred) for x in call.args) or any(k.arg is None for k in call.keywords) or len(call.args) > len(params):
            return None
        bound = dict(zip(params, call.args))
        for k in call.keywords:
            if k.arg not in params or k.arg in bound:
                return None
            bound[k.arg] = k.value
        for p in params:
            if p not in bound:
                if p not in defaults:
                    return None
                bound[p] = defaults[p]
        body = [copy.deepcopy(x) for x in defn.body if not (isinstance(x, ast.Expr) and isinstance(x.value, ast.Constant))]
        stored = _names_stored(body)
        local = stored | set(params)
        ren = {n: _fresh(n) for n in local}
        # a parameter that is never rebound and receives a plain local name is that name
        direct = {}
        for pn in params:
            if pn not in stored and isinstance(bound[pn], ast.Name) and bound[pn].id not in stored:
                direct[pn] = bound[pn].id
                ren[pn] = bound[pn].id

        class Ren(ast.NodeTransformer):
            def visit_Name(self, n):
                if n.id in ren:
                    n.id = ren[n.id]
                return n

        out = []
        for p in params:
            if p in direct:
                continue
            out.append(ast.Assign(targets=[ast.Name(id=ren[p], ctx=ast.Store())], value=copy.deepcopy(bound[p])))
        for x in body[:-1]:
            out.append(Ren().visit(x))
        ret = Ren().visit(body[-1]).value
        if isinstance(s, ast.Assign):
            out.append(ast.Assign(targets=s.targets, value=ret))
        elif isinstance(s, ast.Return):
            out.append(ast.Return(value=ret))
        else:
            out.append(ast.Expr(value=ret))
        return [ast.fix_missing_locations(ast.copy_location(x, s)) for x in out]


def desugar_module(tree):
    return ast.fix_missing_locations(Desugar().module(tree))
