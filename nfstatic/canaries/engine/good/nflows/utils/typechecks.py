def is_int(x):
    return isinstance(x, int)
