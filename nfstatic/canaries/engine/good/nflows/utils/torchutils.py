import torch


def helper(x, eps=1e-6):
    x = x.clone()
    x[..., -1] += eps
    return x.sum()


def split_dim(x, shape):
    new_shape = list(shape)
    new_shape += x.shape[1:]
    return x.reshape(new_shape)
