from nflows.transforms.splines.s import spl
