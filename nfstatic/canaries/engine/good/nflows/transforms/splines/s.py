import torch

def spl(inputs, inverse=False):
    return inputs * 2, torch.zeros_like(inputs)
