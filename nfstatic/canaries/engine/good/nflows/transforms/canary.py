import torch
from torch import nn
from torch.nn import functional as F
from nflows.transforms.base import Transform


class Good(Transform):
    def __init__(self, features):
        super().__init__()
        self.w = nn.Parameter(torch.zeros(features))
        self.register_buffer("r", torch.rand(features))

    def forward(self, inputs, context=None):
        outputs = inputs - self.r
        scale = torch.exp(self.w)
        outputs = (outputs * scale) @ torch.eye(3, dtype=inputs.dtype)
        logabsdet = torch.sum(self.w) * inputs.new_ones(inputs.shape[0])
        return outputs, logabsdet

    def inverse(self, inputs, context=None):
        outputs = F.dropout(inputs, p=0.1, training=self.training)
        return outputs, inputs.new_zeros(inputs.shape[0])
