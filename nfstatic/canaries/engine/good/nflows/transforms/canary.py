import torch
from torch import nn
from torch.nn import functional as F
from nflows.transforms.base import Transform


class Good(Transform):
    def __init__(self, features):
        super().__init__()
        self.w = nn.Parameter(torch.zeros(features))
        self.register_buffer("r", torch.rand(features))

    def forward(self, inputs, context=None):
        outputs = inputs - self.r
        scale = torch.exp(self.w)
        outputs = (outputs * scale) @ torch.eye(3, dtype=inputs.dtype)
        logabsdet = torch.sum(self.w) * inputs.new_ones(inputs.shape[0])
        return outputs, logabsdet

    def inverse(self, inputs, context=None):
        outputs = F.dropout(inputs, p=0.1, training=self.training)
        return outputs, inputs.new_zeros(inputs.shape[0])


class Norm(Transform):
    def __init__(self, features):
        super().__init__()
        self.register_buffer("initialized", torch.tensor(False, dtype=torch.bool))
        self.shift = nn.Parameter(torch.zeros(features))

    def _load_from_state_dict(self, state_dict, prefix, *args, **kwargs):
        key = prefix + "initialized"
        if key not in state_dict:
            state_dict[key] = torch.tensor(True, dtype=torch.bool)
        super()._load_from_state_dict(state_dict, prefix, *args, **kwargs)

    def forward(self, inputs, context=None):
        return inputs + self.shift, inputs.new_zeros(inputs.shape[0])


class Piecewise(Transform):
    def forward(self, inputs, context=None):
        outputs = torch.where(inputs > 1, torch.log(torch.clamp(inputs, min=1.0)) + 1, inputs)
        return outputs, inputs.new_zeros(inputs.shape[0])


class Running(Transform):
    def __init__(self, features):
        super().__init__()
        self.register_buffer("running_mean", torch.zeros(features))

    def forward(self, inputs, context=None):
        mean = inputs.mean(0)
        if self.training:
            with torch.no_grad():
                self.running_mean = torch.lerp(self.running_mean, mean, 0.1)
        return inputs - mean, inputs.new_zeros(inputs.shape[0])


class Lazy(Transform):
    def __init__(self, features):
        super().__init__()
        self.gain = nn.Parameter(torch.zeros(features))

    def _setup(self, inputs):
        with torch.no_grad():
            self.gain.data = inputs.std(0).log()

    def forward(self, inputs, context=None):
        if self.training:
            self._setup(inputs)
        z = inputs + self.gain
        s = torch.sigmoid(z)
        logabsdet = (-F.softplus(-z) - F.softplus(z)).sum(-1)
        return s, logabsdet


class Widening(Transform):
    def __init__(self):
        super().__init__()
        self.register_buffer("bound", torch.tensor(20.0))

    def forward(self, inputs, context=None):
        if self.training:
            self.bound = torch.maximum(self.bound, inputs.detach().abs().max())
        return inputs / self.bound, inputs.new_zeros(inputs.shape[0])

    def inverse(self, inputs, context=None):
        return inputs * self.bound, inputs.new_zeros(inputs.shape[0])


class ModeFlip(Transform):
    def __init__(self, net):
        super().__init__()
        self.net = net

    def inverse(self, inputs, context=None):
        was_training = self.net.training
        self.net.eval()
        try:
            outputs = self.net(inputs)
        finally:
            self.net.train(was_training)
        return outputs, inputs.new_zeros(inputs.shape[0])


_GRID = {}


def _grid(num, like):
    key = (num, like.dtype, like.device)
    if key not in _GRID:
        _GRID[key] = torch.linspace(0, 1, num, dtype=like.dtype, device=like.device)
    return _GRID[key]


class Clip(Transform):
    def forward(self, inputs, context=None):
        eps = 1e-6
        if inputs.min() < torch.finfo(inputs.dtype).tiny:
            raise ValueError("inputs must be positive")
        outputs = torch.log(torch.clamp(inputs, eps, 1 - eps))
        return outputs, -outputs.sum(-1)
