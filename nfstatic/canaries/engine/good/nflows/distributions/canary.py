import torch
from nflows.distributions.base import Distribution


class GoodDist(Distribution):
    def _log_prob(self, inputs, context):
        return inputs.sum(-1)

    def _sample(self, num_samples, context):
        if context is None:
            return torch.randn(num_samples, 2)
        return torch.randn(context.shape[0], num_samples, 2)


class NoisyDist(Distribution):
    def _sample(self, num_samples, context):
        return context + torch.randn_like(context)


class Mixture(Distribution):
    def __init__(self):
        super().__init__()
        self.register_buffer("w", torch.tensor([0.3, 0.7]))
        self.register_buffer("mu", torch.tensor([-1.0, 2.0]))

    def sample_and_log_prob(self, num_samples, context=None):
        z = torch.multinomial(self.w, num_samples, replacement=True)
        x = self.mu[z] + torch.randn(num_samples)
        log_prob = torch.logsumexp(torch.log(self.w) - 0.5 * (x[:, None] - self.mu) ** 2, dim=-1)
        return x, log_prob
