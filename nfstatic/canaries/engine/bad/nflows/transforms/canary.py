import torch
from torch import nn
from torch.nn import functional as F
from nflows.transforms.base import Transform


class Bad(Transform):
    def __init__(self, features):
        super().__init__()
        self.w = nn.Parameter(torch.zeros(features))
        self.r = torch.rand(features)

    def forward(self, inputs, context=None):
        inputs -= self.r
        scale = torch.exp(self.w).detach()
        outputs = (inputs * scale) @ torch.eye(3)
        logabsdet = torch.sum(self.w) * inputs.new_ones(inputs.shape[0])
        return outputs, logabsdet

    def inverse(self, inputs, context=None):
        outputs = F.dropout(inputs, p=0.1)
        return outputs, inputs.new_zeros(inputs.shape[0])
