import torch
from torch import nn
from torch.nn import functional as F
from nflows.transforms.base import Transform


class Bad(Transform):
    def __init__(self, features):
        super().__init__()
        self.w = nn.Parameter(torch.zeros(features))
        self.r = torch.rand(features)

    def forward(self, inputs, context=None):
        inputs -= self.r
        scale = torch.exp(self.w).detach()
        outputs = (inputs * scale) @ torch.eye(3)
        logabsdet = torch.sum(self.w) * inputs.new_ones(inputs.shape[0])
        return outputs, logabsdet

    def inverse(self, inputs, context=None):
        outputs = F.dropout(inputs, p=0.1)
        return outputs, inputs.new_zeros(inputs.shape[0])


class Norm(Transform):
    def __init__(self, features):
        super().__init__()
        self.register_buffer("initialized", torch.tensor(False, dtype=torch.bool))
        self.shift = nn.Parameter(torch.zeros(features))

    def _load_from_state_dict(self, state_dict, prefix, *args, **kwargs):
        state_dict[prefix + "initialized"] = torch.tensor(True, dtype=torch.bool)
        super()._load_from_state_dict(state_dict, prefix, *args, **kwargs)

    def forward(self, inputs, context=None):
        return inputs + self.shift, inputs.new_zeros(inputs.shape[0])


class Piecewise(Transform):
    def forward(self, inputs, context=None):
        outputs = torch.where(inputs > 1, torch.log(inputs) + 1, inputs)
        return outputs, inputs.new_zeros(inputs.shape[0])


class Running(Transform):
    def __init__(self, features):
        super().__init__()
        self.register_buffer("running_mean", torch.zeros(features))

    def forward(self, inputs, context=None):
        mean = inputs.mean(0, keepdim=True)
        if self.training:
            with torch.no_grad():
                self.running_mean = torch.lerp(self.running_mean, mean, 0.1)
        return inputs - mean, inputs.new_zeros(inputs.shape[0])


class Lazy(Transform):
    def __init__(self, features):
        super().__init__()
        self.gain = nn.Parameter(torch.zeros(features))

    def _setup(self, inputs):
        self.gain = nn.Parameter(inputs.std(0).log())

    def forward(self, inputs, context=None):
        if self.training:
            self._setup(inputs)
        s = torch.sigmoid(inputs + self.gain)
        logabsdet = (torch.log(s) + torch.log1p(-s)).sum(-1)
        return s, logabsdet


class Widening(Transform):
    def __init__(self):
        super().__init__()
        self.bound = 20.0

    def forward(self, inputs, context=None):
        if self.training:
            self.bound = max(self.bound, inputs.detach().abs().max().item())
        return inputs / self.bound, inputs.new_zeros(inputs.shape[0])

    def inverse(self, inputs, context=None):
        return inputs * self.bound, inputs.new_zeros(inputs.shape[0])


class ModeFlip(Transform):
    def __init__(self, net):
        super().__init__()
        self.net = net

    def inverse(self, inputs, context=None):
        self.net.eval()
        outputs = self.net(inputs)
        self.net.train()
        return outputs, inputs.new_zeros(inputs.shape[0])


_GRID = {}


def _grid(num, like):
    if num not in _GRID:
        _GRID[num] = torch.linspace(0, 1, num, dtype=like.dtype, device=like.device)
    return _GRID[num]


class Clip(Transform):
    def forward(self, inputs, context=None):
        eps = torch.finfo(inputs.dtype).eps
        outputs = torch.log(torch.clamp(inputs, eps, 1 - eps))
        return outputs, -outputs.sum(-1)
