import torch
from nflows.distributions.base import Distribution


class BadDist(Distribution):
    def _log_prob(self, inputs, context):
        return inputs.sum(-1)

    def _sample(self, num_samples, context):
        return torch.randn(context.shape[0], num_samples, 2)
