import torch
from nflows.distributions.base import Distribution


class BadDist(Distribution):
    def _log_prob(self, inputs, context):
        return inputs.sum(-1)

    def _sample(self, num_samples, context):
        return torch.randn(context.shape[0], num_samples, 2)


class NoisyDist(Distribution):
    def _sample(self, num_samples, context):
        return torch.normal(context, torch.ones_like(context))


class Mixture(Distribution):
    def __init__(self):
        super().__init__()
        self.register_buffer("w", torch.tensor([0.3, 0.7]))
        self.register_buffer("mu", torch.tensor([-1.0, 2.0]))

    def sample_and_log_prob(self, num_samples, context=None):
        z = torch.multinomial(self.w, num_samples, replacement=True)
        x = self.mu[z] + torch.randn(num_samples)
        log_prob = torch.log(self.w[z]) - 0.5 * (x - self.mu[z]) ** 2
        return x, log_prob
