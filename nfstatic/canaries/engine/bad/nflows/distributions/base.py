import torch
from torch import nn


class Distribution(nn.Module):
    def log_prob(self, inputs, context=None):
        return self._log_prob(inputs, context)

    def _log_prob(self, inputs, context):
        raise NotImplementedError()

    def sample(self, num_samples, context=None):
        return self._sample(num_samples, context)

    def _sample(self, num_samples, context):
        raise NotImplementedError()
