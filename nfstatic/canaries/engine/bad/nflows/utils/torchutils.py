import torch


def helper(x, eps=1e-6):
    x[..., -1] += eps
    return x.sum()
