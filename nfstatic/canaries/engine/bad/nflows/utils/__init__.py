from nflows.utils.torchutils import helper
