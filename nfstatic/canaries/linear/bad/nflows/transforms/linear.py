"""Canary (positive example): a two-factor parameterisation whose views disagree."""
import numpy as np
import torch
from torch import nn
from torch.nn import functional as F

from nflows.transforms.base import Transform


class Linear(Transform):
    def __init__(self, features):
        super().__init__()
        self.features = features
        self.bias = nn.Parameter(torch.zeros(features))

    def weight_and_logabsdet(self):
        return self.weight(), self.logabsdet()

    def weight_inverse_and_logabsdet(self):
        return self.weight_inverse(), self.logabsdet()


class CanaryLU(Linear):
    def __init__(self, features):
        super().__init__(features)
        self.lower_indices = np.tril_indices(features, k=-1)
        self.upper_indices = np.triu_indices(features, k=1)
        self.diag_indices = np.diag_indices(features)
        self.lower_entries = nn.Parameter(torch.zeros(3))
        self.upper_entries = nn.Parameter(torch.zeros(3))
        self.log_diag = nn.Parameter(torch.zeros(features))

    def _factors(self):
        lower = self.lower_entries.new_zeros(self.features, self.features)
        lower[self.lower_indices[0], self.lower_indices[1]] = self.lower_entries
        lower[self.diag_indices[0], self.diag_indices[1]] = 1.0
        upper = self.upper_entries.new_zeros(self.features, self.features)
        upper[self.upper_indices[0], self.upper_indices[1]] = self.upper_entries
        upper[self.diag_indices[0], self.diag_indices[1]] = torch.exp(self.log_diag)
        return lower, upper

    def weight(self):
        lower, upper = self._factors()
        return lower @ upper

    def weight_inverse(self):
        lower, upper = self._factors()
        identity = torch.eye(self.features, self.features)
        # wrong order: this is (U L)^-1
        upper_inverse = torch.linalg.solve_triangular(upper, identity, upper=True)
        return torch.linalg.solve_triangular(lower, upper_inverse, upper=False, unitriangular=True)

    def forward_no_cache(self, inputs):
        lower, upper = self._factors()
        # wrong order: applies L first
        outputs = F.linear(F.linear(inputs, lower), upper, self.bias)
        return outputs, self.logabsdet() * inputs.new_ones(inputs.shape[0])

    def inverse_no_cache(self, inputs):
        lower, upper = self._factors()
        outputs = torch.linalg.solve_triangular(lower, (inputs - self.bias).t(), upper=False, unitriangular=True)
        outputs = torch.linalg.solve_triangular(upper, outputs, upper=True).t()
        # sign not flipped
        return outputs, self.logabsdet() * inputs.new_ones(inputs.shape[0])

    def logabsdet(self):
        # numerically fragile and (NUM-LOGSPACE) a log of a product
        return torch.log(torch.prod(torch.exp(self.log_diag)))

    def _spread(self, inputs):
        m = inputs.mean(0)
        var = inputs.pow(2).mean(0) - m.pow(2)
        return var
