from torch import nn


class Transform(nn.Module):
    def forward(self, inputs, context=None):
        raise NotImplementedError()

    def inverse(self, inputs, context=None):
        raise NotImplementedError()
