"""Canonical spelling of tensor expressions (DESIGN 8.9).

Many torch operations have several exactly equivalent spellings: `torch.sum(x, dim=-1)` /
`x.sum(-1)` / `x.sum(dim=-1)`; `torch.ge(a, b)` / `a >= b` / `b <= a`; `x[..., None]` /
`x.unsqueeze(-1)`; `x ** 2` / `x.pow(2)` / `torch.square(x)`; `a @ b` / `torch.matmul(a, b)`;
`torch.add(a, b)` / `a + b`.  `canon(e)` rewrites an expression to one spelling so that rules
which compare a computed form with a specification do not depend on the author's taste:

  * calls are written  f(receiver, positional arguments in signature order)  whether they were
    methods, torch.* / F.* functions, or used keywords (signature table below);
  * comparison / arithmetic functions become operators; comparisons are oriented; the operands of
    commutative chains (+, *) are ordered textually;
  * `None`-indexing becomes unsqueeze, integral float constants become ints.

Only the spelling changes, never the operation, so two expressions with the same canonical text
compute the same value.  In-place variants (`add_`) are NOT identified with their out-of-place
forms: they differ in what they write.
"""

import ast
import copy

from .astutil import const_number
from .model import norm_text

MODS = ("torch", "F", "np", "math")

# positional parameter order after the receiver / input
SIGS = {
    "count_nonzero": ["dim"],
    "sum": ["dim", "keepdim"], "mean": ["dim", "keepdim"], "prod": ["dim", "keepdim"], "logsumexp": ["dim", "keepdim"], "amax": ["dim", "keepdim"], "amin": ["dim", "keepdim"],
    "std": ["dim", "unbiased", "keepdim"], "var": ["dim", "unbiased", "keepdim"], "norm": ["p", "dim", "keepdim"],
    "cumsum": ["dim"], "cumprod": ["dim"], "softmax": ["dim"], "log_softmax": ["dim"], "unsqueeze": ["dim"], "squeeze": ["dim"], "argmax": ["dim", "keepdim"], "argmin": ["dim", "keepdim"],
    "gather": ["dim", "index"], "index_select": ["dim", "index"], "cat": ["dim"], "stack": ["dim"], "transpose": ["dim0", "dim1"], "clamp": ["min", "max"], "pow": ["exponent"],
    "repeat_interleave": ["repeats", "dim"], "flatten": ["start_dim", "end_dim"], "chunk": ["chunks", "dim"], "split": ["split_size_or_sections", "dim"], "where": ["input", "other"],
    "leaky_relu": ["negative_slope"], "softplus": ["beta", "threshold"], "flip": ["dims"], "roll": ["shifts", "dims"], "narrow": ["dim", "start", "length"], "expand_as": ["other"],
    "matmul": ["other"], "mm": ["mat2"], "bmm": ["mat2"], "masked_select": ["mask"], "masked_fill": ["mask", "value"], "searchsorted": ["input", "right"], "argsort": ["dim", "descending"], "sort": ["dim", "descending"],
}
ALIASES = {"ndimension": "dim", "nelement": "numel", "absolute": "abs", "negative": "neg", "multiply": "mul", "divide": "div", "true_divide": "div", "subtract": "sub", "arctan": "atan", "clip": "clamp", "greater_equal": "ge", "greater": "gt", "less_equal": "le", "less": "lt", "not_equal": "ne", "concat": "cat", "concatenate": "cat"}
BIN = {"add": ast.Add, "sub": ast.Sub, "mul": ast.Mult, "div": ast.Div, "matmul": ast.MatMult, "floor_divide": ast.FloorDiv, "remainder": ast.Mod}
CMP = {"ge": ast.GtE, "gt": ast.Gt, "le": ast.LtE, "lt": ast.Lt, "eq": ast.Eq, "ne": ast.NotEq}
FLIP = {ast.GtE: ast.LtE, ast.Gt: ast.Lt, ast.LtE: ast.GtE, ast.Lt: ast.Gt, ast.Eq: ast.Eq, ast.NotEq: ast.NotEq}
# methods that are tensor operations (so that x.f(..) and torch.f(x, ..) can be identified); anything else
# called on an object stays a method call
TENSOR_OPS = set(SIGS) | set(BIN) | set(CMP) | {
    "abs", "exp", "log", "log1p", "expm1", "sqrt", "rsqrt", "sigmoid", "tanh", "atan", "sin", "cos", "tan", "sign", "neg", "reciprocal", "square", "floor", "ceil", "round", "erf",
    "relu", "logsigmoid", "t", "diag", "inverse", "slogdet", "det", "logdet", "numel", "dim", "isnan", "isinf", "isfinite", "all", "any", "min", "max", "detach", "clone", "contiguous",
    "tril", "triu", "outer", "ger", "mv", "dot", "atan2", "maximum", "minimum", "logaddexp", "lerp", "addcmul", "addcdiv", "trace", "diagonal", "cummax", "cummin", "logcumsumexp", "nonzero",
}


def _fn(name):
    """the canonical callee: torch.<name>"""
    return ast.Attribute(value=ast.Name(id="torch", ctx=ast.Load()), attr=name, ctx=ast.Load())


def _num(v):
    if isinstance(v, float) and v.is_integer():
        return int(v)
    return v


class _Canon(ast.NodeTransformer):
    def visit_Constant(self, n):
        if isinstance(n.value, float) and n.value.is_integer() and abs(n.value) < 2 ** 53:
            return ast.copy_location(ast.Constant(value=int(n.value)), n)
        return n

    def visit_Subscript(self, n):
        self.generic_visit(n)
        idx = n.slice.elts if isinstance(n.slice, ast.Tuple) else [n.slice]

        def is_full(i):
            return isinstance(i, ast.Slice) and i.lower is None and i.upper is None and i.step is None

        def is_ell(i):
            return isinstance(i, ast.Constant) and i.value is Ellipsis

        def is_none(i):
            return isinstance(i, ast.Constant) and i.value is None

        if isinstance(n.ctx, ast.Load) and sum(1 for i in idx if is_none(i)) == 1 and all(is_full(i) or is_ell(i) or is_none(i) for i in idx) and sum(1 for i in idx if is_ell(i)) <= 1:
            k = next(j for j, i in enumerate(idx) if is_none(i))
            if any(is_ell(i) for i in idx[:k]):
                dim = -(len(idx) - k)
            else:
                dim = k
            return ast.copy_location(ast.Call(func=_fn("unsqueeze"), args=[n.value, ast.Constant(value=dim)], keywords=[]), n)
        return n

    def visit_BinOp(self, n):
        self.generic_visit(n)
        if isinstance(n.op, ast.MatMult):
            return ast.copy_location(ast.Call(func=_fn("matmul"), args=[n.left, n.right], keywords=[]), n)
        if isinstance(n.op, ast.Pow):
            k = const_number(n.right)
            if k is not None and k == 0.5:
                return ast.copy_location(ast.Call(func=_fn("sqrt"), args=[n.left], keywords=[]), n)
            return ast.copy_location(ast.Call(func=_fn("pow"), args=[n.left, n.right], keywords=[]), n)
        if isinstance(n.op, (ast.Add, ast.Mult)):
            terms = []

            def flat(e):
                if isinstance(e, ast.BinOp) and type(e.op) is type(n.op):
                    flat(e.left)
                    flat(e.right)
                else:
                    terms.append(e)

            flat(n)
            terms.sort(key=lambda t: norm_text(t))
            out = terms[0]
            for t in terms[1:]:
                out = ast.BinOp(left=out, op=type(n.op)(), right=t)
            return ast.copy_location(out, n)
        return n

    def visit_Compare(self, n):
        self.generic_visit(n)
        if len(n.ops) == 1 and type(n.ops[0]) in FLIP:
            a, b = n.left, n.comparators[0]
            if norm_text(a) > norm_text(b):
                return ast.copy_location(ast.Compare(left=b, ops=[FLIP[type(n.ops[0])]()], comparators=[a]), n)
        return n

    def visit_Call(self, n):
        self.generic_visit(n)
        f = n.func
        name, recv = None, None
        if isinstance(f, ast.Attribute):
            if isinstance(f.value, ast.Name) and f.value.id in MODS:
                if f.value.id in ("np", "math"):
                    return n
                name = f.attr
            elif isinstance(f.value, ast.Attribute) and norm_text(f.value) in ("torch.nn.functional", "torch.linalg", "torch.special"):
                name = f.attr
            elif ALIASES.get(f.attr, f.attr) in TENSOR_OPS:
                name, recv = f.attr, f.value
            else:
                return n
        elif isinstance(f, ast.Name) and ALIASES.get(f.id, f.id) in TENSOR_OPS and f.id not in ("min", "max", "all", "any", "round", "abs", "pow", "sum"):
            name = f.id
        else:
            return n
        name = ALIASES.get(name, name)
        args = ([recv] if recv is not None else []) + list(n.args)
        kws = list(n.keywords)
        if any(isinstance(a, ast.Starred) for a in args) or any(k.arg is None for k in kws):
            return ast.copy_location(ast.Call(func=_fn(name), args=args, keywords=kws), n)
        # input= keyword of the functional form
        for k in list(kws):
            if k.arg in ("input", "self") and recv is None and not n.args:
                args = [k.value] + args
                kws.remove(k)
        sig = SIGS.get(name)
        if sig is not None:
            extra = args[1:]
            slots = list(extra) + [None] * (len(sig) - len(extra))
            rest = []
            for k in kws:
                if k.arg in sig and sig.index(k.arg) < len(slots) and slots[sig.index(k.arg)] is None:
                    slots[sig.index(k.arg)] = k.value
                else:
                    rest.append(k)
            while slots and slots[-1] is None:
                slots.pop()
            if all(s is not None for s in slots):
                args = args[:1] + slots
                kws = sorted(rest, key=lambda k: k.arg)
        # operators
        if name in BIN and len(args) == 2 and not kws:
            return self.visit_BinOp(ast.copy_location(ast.BinOp(left=args[0], op=BIN[name](), right=args[1]), n))
        if name in CMP and len(args) == 2 and not kws:
            return self.visit_Compare(ast.copy_location(ast.Compare(left=args[0], ops=[CMP[name]()], comparators=[args[1]]), n))
        if name == "count_nonzero" and args and isinstance(args[0], (ast.Compare, ast.BoolOp)):
            name = "sum"  # of a boolean tensor: the number of True entries
        if name == "neg" and len(args) == 1 and not kws:
            return ast.copy_location(ast.UnaryOp(op=ast.USub(), operand=args[0]), n)
        if name == "square" and len(args) == 1 and not kws:
            args, name = [args[0], ast.Constant(value=2)], "pow"
        if name == "pow" and len(args) == 2 and const_number(args[1]) == 0.5:
            args, name = [args[0]], "sqrt"
        if name == "t" and len(args) == 1 and not kws:
            args, name = [args[0], ast.Constant(value=0), ast.Constant(value=1)], "transpose"
        if name == "ger":
            name = "outer"
        return ast.copy_location(ast.Call(func=_fn(name), args=args, keywords=kws), n)


def canon(e):
    out = _Canon().visit(copy.deepcopy(e))
    return ast.fix_missing_locations(out)


def canon_text(e):
    return norm_text(canon(e))


def canon_of_source(src, **names):
    """canonical text of a specification written as source, with its free names renamed"""
    e = ast.parse(src, mode="eval").body

    class R(ast.NodeTransformer):
        def visit_Name(self, n):
            if n.id in names:
                return ast.copy_location(ast.Name(id=names[n.id], ctx=n.ctx), n)
            return n

    return canon_text(R().visit(e))
