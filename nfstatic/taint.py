"""Forward may-dependence (taint) domain (DESIGN 1.5), parameterised per rule.

Annotation = frozenset of labels describing what a *value* may depend on.  Unknown operations
propagate the union of their operands' labels (sound for may-dependence).
"""

from . import tops
from .interp import AV, Domain, T, NUM, TUP, LST, E, all_ann


class TaintDomain(Domain):
    name = "taint"
    value_semantics = True

    # -- to be specialised ------------------------------------------------------------------
    def src_arg(self, func, pname):
        return E

    def src_state(self, interp, path, attrinfo, node):
        return E

    def src_net(self, interp, netav, method, args, kwargs, node):
        ann = E
        for a in list(args) + list(kwargs.values()):
            ann = ann | all_ann(self, a)
        return ann

    def xfer(self, interp, op, info, anns, recv, args, kwargs, node):
        """Labels of the result given the union `anns` of operand labels."""
        return anns

    def index_labels(self, ann):
        """Labels an index contributes to the value it selects."""
        return ann

    def shape_ann(self, ann):
        return E  # a shape carries no value dependence

    # -- Domain interface ---------------------------------------------------------------------
    def arg(self, func, pname, idx, default):
        return T(frozenset(self.src_arg(func, pname)))

    def state(self, interp, objav, path, attrinfo, node):
        return T(frozenset(self.src_state(interp, tuple(p for p in path if p != "<new>"), attrinfo, node)))

    def net_result(self, interp, netav, method, args, kwargs, node):
        return T(frozenset(self.src_net(interp, netav, method, args, kwargs, node)))

    def ext_module_result(self, interp, dotted, path, args, kwargs, node):
        ann = E
        for a in list(args) + list(kwargs.values()):
            ann = ann | all_ann(self, a)
        ann = ann | frozenset(self.src_state(interp, tuple(p for p in path if p != "<new>") + ("<params>",), None, node))
        return T(frozenset(self.xfer(interp, "extmodule:" + dotted, {"cat": "fresh"}, ann, None, args, kwargs, node)))

    def ctor(self, interp, op, args, kwargs, node):
        ann = E
        for a in list(args) + list(kwargs.values()):
            ann = ann | all_ann(self, a)
        return T(frozenset(self.xfer(interp, op, tops.OPS[op], ann, None, args, kwargs, node)))

    def umnn_call(self, interp, dotted, args, kwargs, node):
        ann = E
        for a in args:
            ann = ann | all_ann(self, a)
        return T(frozenset(self.xfer(interp, "umnn", {"cat": "fresh"}, ann, None, args, kwargs, node)))

    def op(self, interp, op, info, recv, args, kwargs, node):
        ann = all_ann(self, recv) if recv is not None else E
        for a in list(args) + list(kwargs.values()):
            if isinstance(a, AV):
                ann = ann | all_ann(self, a)
        cat = info.get("cat")
        if cat == "like" and not getattr(self, "like_keeps_labels", False):
            ann = E
            for a in list(args) + list(kwargs.values()):
                if isinstance(a, AV) and a.kind in ("tensor", "top"):
                    ann = ann | all_ann(self, a)
        if cat == "scalar" and op not in ("item", "tolist", "numpy"):
            ann = self.shape_ann(ann)
        out = frozenset(self.xfer(interp, op, info, ann, recv, args, kwargs, node))
        if cat == "scalar":
            if op == "size" and not args and "dim" not in kwargs:
                return AV("shape", None, out)
            return NUM(out)
        if cat == "aliases":
            return LST(None, T(out))
        if cat == "tuple":
            return TUP([T(out) for _ in range(info.get("n", 2))])
        return T(out)

    def binop(self, interp, opnode, left, right, node):
        ann = all_ann(self, left) | all_ann(self, right)
        return T(frozenset(self.xfer(interp, "binop:" + type(opnode).__name__, {"cat": "fresh", "ew": True}, ann, left, [right], {}, node)))

    def compare(self, interp, left, right, node):
        ann = all_ann(self, left) | all_ann(self, right)
        return T(frozenset(self.xfer(interp, "compare", {"cat": "fresh", "ew": True, "idx": True}, ann, left, [right], {}, node)))

    def subscript(self, interp, base, index, node):
        ann = base.ann | frozenset(self.index_labels(_index_ann(self, index)))
        return AV(base.kind, None, frozenset(self.xfer(interp, "subscript", {"cat": "alias"}, ann, base, [index], {}, node)))


def _index_ann(dom, index):
    if index is None:
        return E
    if index.kind == "idxtuple":
        r = E
        for i in index.data:
            r = r | _index_ann(dom, i)
        return r
    if index.kind == "slice":
        r = E
        for x in index.data:
            if x is not None:
                r = r | all_ann(dom, x)
        return r
    return all_ann(dom, index)
