"""Ownership / effect analysis (DESIGN 1.4): which storage may a write reach?

Annotation of a tensor value = the set of *non-fresh* owners its storage may belong to:
  ('ARG', name)    storage that may alias the entry point's parameter `name`
  ('STATE', path)  a parameter / buffer / tensor attribute of the model
  'TOP'            unknown
The empty set means FRESH (allocated on this evaluation path).  Join is union.
"""

import ast

from . import tops
from .interp import AV, Domain, T, NUM, TUP, LST, E, all_ann, NONE
from .model import norm_text, PARAM, BUFFER
from .report import Finding


def flatten_pc(pc):
    """[(test, polarity)] -> set of (normalised atom text, polarity)."""
    out = set()

    def go(t, pol):
        if isinstance(t, ast.UnaryOp) and isinstance(t.op, ast.Not):
            go(t.operand, not pol)
        elif isinstance(t, ast.BoolOp) and isinstance(t.op, ast.And) and pol:
            for v in t.values:
                go(v, True)
        elif isinstance(t, ast.BoolOp) and isinstance(t.op, ast.Or) and not pol:
            for v in t.values:
                go(v, False)
        else:
            out.add((norm_text(t), pol))

    for t, pol in pc:
        go(t, pol)
    return out


# Effect table: legal writes to model state on evaluation paths.
# (class name, attribute) -> required path condition atoms [(text, polarity)], reason
EFFECTS = {
    ("BatchNorm", "running_mean"): ([("self.training", True)], "documented momentum update, training mode only"),
    ("BatchNorm", "running_var"): ([("self.training", True)], "documented momentum update, training mode only"),
    ("ActNorm", "log_scale"): ([("self.training", True), ("self.initialized", False)], "one-shot data-dependent initialisation"),
    ("ActNorm", "shift"): ([("self.training", True), ("self.initialized", False)], "one-shot data-dependent initialisation"),
    ("ActNorm", "initialized"): ([("self.training", True), ("self.initialized", False)], "one-shot data-dependent initialisation"),
}
# plain (non-parameter, non-buffer) attributes an evaluation path may rebind
ATTR_EFFECTS = {
    ("LinearCache", "weight"): "memo of derived state (C10 decides its freshness)",
    ("LinearCache", "inverse"): "memo of derived state (C10 decides its freshness)",
    ("LinearCache", "logabsdet"): "memo of derived state (C10 decides its freshness)",
}


class OwnDomain(Domain):
    name = "ownership"
    value_semantics = False

    def __init__(self):
        self.findings = []
        self.write_sites = {}  # (file, line) -> classification
        self.state_writes = []
        self.facts_used = set()

    # -- sources ----------------------------------------------------------------------------
    def arg(self, func, pname, idx, default):
        return T(frozenset({("ARG", pname)}))

    def state(self, interp, objav, path, attrinfo, node):
        return T(frozenset({("STATE", ".".join(p for p in path if p != "<new>"))}))

    def net_result(self, interp, netav, method, args, kwargs, node):
        # A-NET: user-supplied networks / transforms return newly computed tensors
        return T()

    def ext_module_result(self, interp, dotted, path, args, kwargs, node):
        return T()

    def ctor(self, interp, op, args, kwargs, node):
        return T()

    def umnn_call(self, interp, dotted, args, kwargs, node):
        return T()

    def plain_param(self, interp, one, cls, path, ai, node):
        return None

    # -- operations -------------------------------------------------------------------------
    def op(self, interp, op, info, recv, args, kwargs, node):
        cat = info["cat"]
        if cat in ("inplace", "init"):
            return recv
        if cat == "alias":
            return AV("tensor", None, all_ann(self, recv))
        if cat == "aliases":
            return LST(None, AV("tensor", None, all_ann(self, recv)))
        if cat in ("fresh", "like"):
            return T()
        if cat == "tuple":
            return TUP([T() for _ in range(info["n"])])
        return None

    def binop(self, interp, opnode, left, right, node):
        return T()

    def compare(self, interp, left, right, node):
        return T()

    def subscript(self, interp, base, index, node):
        if _is_basic_index(index):
            return AV(base.kind, None, base.ann)
        return T()

    # -- events -----------------------------------------------------------------------------
    def on_write(self, interp, how, target, value, node):
        frame = interp.frame
        fi = frame.func
        site = (fi.module.relpath, getattr(node, "lineno", 0), norm_text(node))
        if target.kind not in ("tensor", "top"):
            if target.kind in ("num", "const", "list", "dict", "shape"):
                return
            owners = {"TOP"}
        else:
            owners = set(target.ann)
            if target.kind == "top":
                owners.add("TOP")
        stack = [f.func.qualname if f.self_av is None or f.self_av.kind != "obj" else "%s.%s" % (f.self_av.data[0][0].name, f.func.name) for f in frame.stack()]
        if not owners:
            self.write_sites.setdefault(site, set()).add("FRESH")
            return
        pc = flatten_pc(frame.pc_all())
        for o in sorted(owners, key=str):
            if o == "TOP":
                self.write_sites.setdefault(site, set()).add("TOP")
                self.findings.append(Finding("OWN-TOP", fi.module, fi.qualname, node, "in-place write (%s) to storage of unknown ownership" % how, witness=stack))
            elif o[0] == "ARG":
                self.write_sites.setdefault(site, set()).add("ARG")
                self.findings.append(
                    Finding(
                        "OWN-ARG",
                        fi.module,
                        fi.qualname,
                        node,
                        "in-place write (%s) reaches storage that may alias the caller-supplied argument '%s' of %s" % (how, o[1], stack[0]),
                        witness=stack,
                    )
                )
            elif o[0] == "STATE":
                self.write_sites.setdefault(site, set()).add("STATE")
                recv_cls = None
                for f in reversed(frame.stack()):
                    if f.self_av is not None and f.self_av.kind == "obj":
                        recv_cls = f.self_av.data[0][0]
                        break
                attr = o[1].split(".")[-1]
                legal = None
                if recv_cls is not None:
                    for c in recv_cls.repo_mro():
                        if (c.name, attr) in EFFECTS:
                            legal = EFFECTS[(c.name, attr)]
                            break
                if legal is not None and all(a in pc for a in legal[0]):
                    self.state_writes.append((recv_cls.name, o[1], site, legal[1]))
                    continue
                why = "outside the effect table" if legal is None else "not under the required condition %s" % " and ".join(("" if pol else "not ") + t for t, pol in legal[0])
                self.findings.append(
                    Finding(
                        "OWN-STATE",
                        fi.module,
                        fi.qualname,
                        node,
                        "in-place write (%s) to model state '%s' on an evaluation path, %s" % (how, o[1], why),
                        witness=stack,
                    )
                )

    def on_attr_store(self, interp, obj, attr, value, node):
        frame = interp.frame
        fi = frame.func
        if fi.name in ("__init__",):
            return
        for cls, path in obj.data:
            if path and path[0] == "<new>":
                continue
            legal = None
            for c in cls.repo_mro():
                if (c.name, attr) in ATTR_EFFECTS:
                    legal = ATTR_EFFECTS[(c.name, attr)]
            site = (fi.module.relpath, getattr(node, "lineno", 0), norm_text(node))
            if legal is not None:
                self.state_writes.append((cls.name, attr, site, legal))
                continue
            stack = [f.func.qualname for f in frame.stack()]
            fnd = Finding(
                "OWN-ATTR",
                fi.module,
                fi.qualname,
                node,
                "evaluation path rebinds attribute '%s' of %s" % (attr, cls.name),
                witness=stack,
            )
            # what kind of value is kept (a tensor kept across calls matters to C16 / C19 as well)
            fnd.value_kind = getattr(value, "kind", None) if value is not None else None
            fnd.attr = attr
            self.findings.append(fnd)

    def on_container_mutation(self, interp, chain, how, node):
        frame = interp.frame
        fi = frame.func
        if fi.name in ("__init__",):
            return
        parts = chain.split(".")
        attr = parts[1] if len(parts) > 1 else chain
        recv_cls = None
        for f in reversed(frame.stack()):
            if f.self_av is not None and f.self_av.kind == "obj":
                recv_cls = f.self_av.data[0][0]
                break
        if recv_cls is not None:
            for c in recv_cls.repo_mro():
                if (c.name, attr) in ATTR_EFFECTS or (c.name, attr) in EFFECTS:
                    return  # a documented effect (the Linear cache memo)
        stack = [f.func.qualname for f in frame.stack()]
        fnd = Finding("OWN-ATTR", fi.module, fi.qualname, node, "evaluation path mutates the container kept in '%s' (%s): the model remembers something about this call" % (chain, how), witness=stack)
        fnd.value_kind = "container"
        fnd.attr = attr
        self.findings.append(fnd)

    def nonempty_loop(self, interp, frame, node):
        from . import facts

        r = facts.loop_nonempty(interp.p, frame.func, node)
        if r:
            self.facts_used.add(r)
        return bool(r)


def _is_basic_index(index):
    k = index.kind
    if k in ("slice",):
        return True
    if k == "const":
        return index.data is None or index.data is Ellipsis or isinstance(index.data, int)
    if k == "num":
        return True
    if k == "idxtuple":
        return all(_is_basic_index(i) for i in index.data)
    if k == "top":
        return True  # unknown index: conservatively a view
    return False  # tensor / list index: advanced indexing copies
