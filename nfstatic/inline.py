"""Writing out calls of small helpers inside a constructor body (used by analyses that read a constructor as a
sequence of statements: the MADE wiring extraction of C06).

    blocks, prev = self._create_blocks(C, start, n, **kw)        # a private (static) method of the class
    self.linear = _create_hidden_linear(in_degrees, features)     # a module-level factory

become the helper's statements with its locals renamed (`_<helper>__<name>`) and its parameters replaced by the
arguments (bound to a renamed local first when the argument is not a plain name / constant or the helper
rebinds the parameter), followed by the assignment of the returned expression.  Only helpers whose body is
straight-line-or-loops with a single `return` as the last statement are written out; anything else is left
as it is (and the analysis says "undecided" where it cannot follow).
"""

import ast
import copy


def _body_of(fn):
    body = [s for s in fn.body if not (isinstance(s, ast.Expr) and isinstance(s.value, ast.Constant))]
    if not body or not isinstance(body[-1], ast.Return) or body[-1].value is None:
        return None
    for s in body[:-1]:
        for n in ast.walk(s):
            if isinstance(n, (ast.Return, ast.Yield, ast.YieldFrom, ast.FunctionDef, ast.Lambda, ast.Global, ast.Nonlocal, ast.Try, ast.With)):
                return None
    return body


def _simple(e):
    return isinstance(e, (ast.Name, ast.Constant)) or (isinstance(e, ast.Attribute) and _simple(e.value)) or (isinstance(e, ast.UnaryOp) and isinstance(e.operand, ast.Constant))


def expand_call(call, fn, drop_self):
    """(statements, result expression) of `call` to the FunctionDef `fn` written out, or None"""
    body = _body_of(fn)
    if body is None:
        return None
    a = fn.args
    if a.vararg or a.posonlyargs:
        return None
    names = [x.arg for x in a.args]
    if drop_self:
        if not names:
            return None
        self_name, names = names[0], names[1:]
    else:
        self_name = None
    defaults = dict(zip(names[len(names) - len(a.defaults):], a.defaults)) if a.defaults else {}
    for k, d in zip(a.kwonlyargs, a.kw_defaults):
        names.append(k.arg)
        if d is not None:
            defaults[k.arg] = d
    if any(isinstance(x, ast.Starred) for x in call.args) or len(call.args) > len(names):
        return None
    bound = dict(zip(names, call.args))
    extra = []
    for k in call.keywords:
        if k.arg is None:
            return None
        if k.arg in names:
            if k.arg in bound:
                return None
            bound[k.arg] = k.value
        else:
            extra.append(k)
    for n in names:
        if n not in bound:
            if n not in defaults:
                return None
            bound[n] = defaults[n]
    kwname = a.kwarg.arg if a.kwarg else None
    if extra and kwname is None:
        return None
    if kwname is not None:
        # **kw may only be forwarded as **kw
        for s in body:
            for n in ast.walk(s):
                if isinstance(n, ast.Name) and n.id == kwname:
                    par_ok = False
                    for c in ast.walk(s):
                        if isinstance(c, ast.Call) and any(k.arg is None and k.value is n for k in c.keywords):
                            par_ok = True
                    if not par_ok:
                        return None
    stored = {n.id for s in body for n in ast.walk(s) if isinstance(n, ast.Name) and isinstance(n.ctx, (ast.Store, ast.Del))}
    prefix = "_%s__" % fn.name.strip("_")
    pre = []
    mapping = {}
    for n in names:
        v = bound[n]
        if _simple(v) and n not in stored:
            mapping[n] = v
        else:
            ln = prefix + n
            pre.append(ast.Assign(targets=[ast.Name(id=ln, ctx=ast.Store())], value=copy.deepcopy(v)))
            mapping[n] = ast.Name(id=ln, ctx=ast.Load())
    for n in stored:
        if n not in mapping or not isinstance(mapping[n], ast.Name) or not mapping[n].id.startswith(prefix):
            mapping[n] = ast.Name(id=prefix + n, ctx=ast.Load())

    class R(ast.NodeTransformer):
        def visit_Name(self, n):
            if n.id in mapping:
                m = mapping[n.id]
                if isinstance(n.ctx, (ast.Store, ast.Del)):
                    if not isinstance(m, ast.Name):
                        raise ValueError("store to a substituted parameter")
                    return ast.copy_location(ast.Name(id=m.id, ctx=n.ctx), n)
                return ast.copy_location(copy.deepcopy(m), n)
            return n

        def visit_Call(self, n):
            self.generic_visit(n)
            if kwname is not None and any(k.arg is None and isinstance(k.value, ast.Name) and k.value.id == kwname for k in n.keywords):
                n.keywords = [k for k in n.keywords if not (k.arg is None and isinstance(k.value, ast.Name) and k.value.id == kwname)] + [copy.deepcopy(k) for k in extra]
            return n

    try:
        stmts = pre + [R().visit(copy.deepcopy(s)) for s in body[:-1]]
        result = R().visit(copy.deepcopy(body[-1].value))
    except ValueError:
        return None
    return stmts, result


_COUNTER = [0]


def write_out_helpers(stmts, resolve, like=None, depth=0):
    """top-level statements of a constructor with the calls `resolve` knows written out.
    resolve(call) -> (FunctionDef, drop_self) or None"""
    out = []
    for st in stmts:
        call = None
        # lst.append(<helper call>)  ->  tmp = <helper call>; lst.append(tmp)
        if isinstance(st, ast.Expr) and isinstance(st.value, ast.Call) and isinstance(st.value.func, ast.Attribute) and st.value.func.attr == "append" and len(st.value.args) == 1 and isinstance(st.value.args[0], ast.Call) and not st.value.keywords and resolve(st.value.args[0]) is not None:
            _COUNTER[0] += 1
            tmp = "_appended__%d" % _COUNTER[0]
            first = ast.copy_location(ast.Assign(targets=[ast.Name(id=tmp, ctx=ast.Store())], value=st.value.args[0]), st)
            st.value.args = [ast.copy_location(ast.Name(id=tmp, ctx=ast.Load()), st)]
            out.extend(write_out_helpers([ast.fix_missing_locations(first)], resolve, like, depth))
            out.append(st)
            continue
        if isinstance(st, (ast.Assign, ast.Expr)) and isinstance(st.value, ast.Call):
            call = st.value
        r = resolve(call) if call is not None else None
        ex = expand_call(call, r[0], r[1]) if r is not None else None
        if ex is None:
            out.append(st)
            continue
        pre, result = ex
        if depth < 3:
            pre = write_out_helpers(pre, resolve, like, depth + 1)
        for s in pre:
            ast.copy_location(s, st)
            ast.fix_missing_locations(s)
        out.extend(pre)
        if isinstance(st, ast.Expr):
            continue
        tgt = st.targets[0] if len(st.targets) == 1 else None
        tnames = {x.id for x in ast.walk(tgt) if isinstance(x, ast.Name)} if tgt is not None else set()
        independent = isinstance(result, ast.Tuple) and not any(isinstance(x, ast.Name) and x.id in tnames for x in ast.walk(result))
        if isinstance(tgt, (ast.Tuple, ast.List)) and isinstance(result, ast.Tuple) and len(tgt.elts) == len(result.elts) and (all(_simple(e) for e in result.elts) or independent):
            for t, e in zip(tgt.elts, result.elts):
                out.append(ast.fix_missing_locations(ast.copy_location(ast.Assign(targets=[t], value=e), st)))
        else:
            new = ast.Assign(targets=st.targets, value=result)
            out.append(ast.fix_missing_locations(ast.copy_location(new, st)))
    return out
