"""Enumeration of entry points (never a hand-written list of functions)."""

import ast

from .model import AnalysisIncomplete, ClassInfo
from .interp import AV, OBJ, T, NUM, CONST, NONE, E

TRANSFORM_ENTRY = ("forward", "inverse")
DIST_ENTRY = ("log_prob", "sample", "sample_and_log_prob", "mean", "_log_prob", "_sample", "_mean", "transform_to_noise")

# parameters of entry points that are Python data, not tensors
NON_TENSOR_PARAMS = {
    "num_samples", "batch_size", "n", "num_reps", "num_dims", "num_batch_dims", "shape", "features",
    "even", "size", "max_value", "bound", "model", "mode", "sample_shape", "dim", "num_bins",
    "inverse", "tails", "tail_bound", "left", "right", "bottom", "top", "min_bin_width",
    "min_bin_height", "min_derivative", "eps", "quadratic_threshold", "enable_identity_init",
    "args", "kwargs", "c", "h_", "w_",
}


class Entry:
    def __init__(self, func, cls, kind):
        self.func = func
        self.cls = cls  # receiver class (concrete) or None
        self.kind = kind  # 'transform' | 'distribution' | 'module' | 'util' | 'spline'

    @property
    def label(self):
        if self.cls is not None:
            return "%s.%s" % (self.cls.name, self.func.name)
        return self.func.qualname

    def __repr__(self):
        return "<entry %s %s>" % (self.kind, self.label)


def is_abstract(cls, hooks):
    """A class is abstract if one of `hooks` resolves to a body that only raises."""
    for h in hooks:
        m = cls.lookup_method(h)
        if m is None:
            continue
        if _only_raises(m):
            return True
    return False


def _only_raises(fi):
    body = [s for s in fi.node.body if not (isinstance(s, ast.Expr) and isinstance(s.value, ast.Constant))]
    return len(body) == 1 and isinstance(body[0], ast.Raise)


def transform_classes(p):
    base = p.find_class("Transform", "nflows.transforms.base")
    return [c for c in p.subclasses_of(base)]


def distribution_classes(p):
    base = p.find_class("Distribution", "nflows.distributions.base")
    return [c for c in p.subclasses_of(base)]


def enumerate_entries(p):
    out = []
    seen = set()

    def add(fi, cls, kind):
        key = (id(fi), id(cls))
        if fi is None or key in seen:
            return
        seen.add(key)
        out.append(Entry(fi, cls, kind))

    for c in transform_classes(p):
        for m in TRANSFORM_ENTRY:
            add(c.lookup_method(m), c, "transform")
        if c.name == "HouseholderSequence":
            add(c.lookup_method("matrix"), c, "transform")
    lin = [c for c in p.all_classes() if c.name == "Linear" and c.module.name == "nflows.transforms.linear"]
    for base in lin:
        for c in p.subclasses_of(base):
            for m in ("weight", "weight_inverse", "logabsdet", "weight_and_logabsdet", "weight_inverse_and_logabsdet", "forward_no_cache", "inverse_no_cache"):
                add(c.lookup_method(m), c, "transform")
    for c in distribution_classes(p):
        for m in DIST_ENTRY:
            add(c.lookup_method(m), c, "distribution")
    # other nn.Module classes of the package: forward (+ the density API of the MADE mixture)
    for c in p.all_classes():
        if not c.is_nn_module():
            continue
        if any(e.cls is c for e in out):
            continue
        add(c.lookup_method("forward"), c, "module")
        for m in ("log_prob", "sample", "inverse_transform"):
            if c.lookup_method(m) is not None:
                add(c.lookup_method(m), c, "module")
    # plain (non-module) density objects
    for c in p.all_classes():
        if c.is_nn_module() or any(e.cls is c for e in out):
            continue
        for m in ("log_prob", "sample"):
            if m in c.methods:
                add(c.methods[m], c, "distribution")
    # exported helpers
    utils = p.modules.get("nflows.utils")
    if utils is None:
        raise AnalysisIncomplete("nflows.utils missing")
    for name in sorted(utils.imports):
        r = p.resolve_name(utils, name)
        if hasattr(r, "node") and not isinstance(r, ClassInfo):
            add(r, None, "util")
    sp = p.modules.get("nflows.transforms.splines")
    if sp is None:
        raise AnalysisIncomplete("nflows.transforms.splines missing")
    for name in sorted(sp.imports):
        r = p.resolve_name(sp, name)
        if hasattr(r, "node") and not isinstance(r, ClassInfo):
            add(r, None, "spline")
    return out


def entry_args(dom, entry):
    """Abstract arguments for an entry point: tensors for data parameters, Python data else."""
    args = []
    for i, (pname, default) in enumerate(entry.func.params()):
        args.append(param_value(dom, entry.func, pname, i, default))
    return args


def param_value(dom, func, pname, i, default):
    is_none_default = isinstance(default, ast.Constant) and default.value is None
    if pname in NON_TENSOR_PARAMS:
        return AV("num", None, E, is_none_default)
    if default is not None and not is_none_default:
        if isinstance(default, ast.Constant):
            if isinstance(default.value, str):
                return AV("str")
            return NUM()
        # typing defaults such as `context=Optional[Tensor]` (sic) still denote a tensor param
    v = dom.arg(func, pname, i, default)
    if is_none_default:
        v = AV(v.kind, v.data, v.ann, True)
    return v
