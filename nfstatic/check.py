"""Driver: `python3 -m nfstatic.check <property> --tier quick|thorough [--replay path]`.

Exit codes: 0 property held on everything analysed (known findings are printed, not alarms);
1 a violation not listed in known_findings.json (prints `VIOLATION property=<id> replay=<path>`);
2 the analysis could not be completed (anchor vanished, unsupported syntax, instance count
below the hand-confirmed minimum, internal error) -- never a silent pass.
"""

import argparse
import json
import os
import sys
import time
import traceback

from . import REPO, VERIF
from .model import AnalysisIncomplete, load_program
from .report import dedupe


class Ctx:
    def __init__(self, program, tier, prop):
        self.p = program
        self.tier = tier
        self.prop = prop
        self.cache = {}

    def shared(self, key, builder):
        if key not in self.cache:
            self.cache[key] = builder()
        return self.cache[key]


def load_known():
    path = os.path.join(VERIF, "known_findings.json")
    if not os.path.exists(path):
        return {"findings": [], "fixed": []}
    with open(path) as f:
        return json.load(f)


def is_known(known, prop, f):
    for k in known.get("findings", []):
        if k.get("property") != prop:
            continue
        if k.get("rule") == f.rule and k.get("file") == f.file and k.get("function") == f.qualname and k.get("construct") == f.construct:
            return k
    return None


def run_property(prop, tier, repo=None, write=True):
    from .rules import PROPERTIES

    t0 = time.time()
    if prop not in PROPERTIES:
        print("ANALYSIS-ERROR unknown property %s" % prop)
        return 2
    spec = PROPERTIES[prop]
    evidence_dir = os.path.join(VERIF, "evidence")
    try:
        program = load_program(repo)
        from . import symexp

        symexp.set_program(program)
        ctx = Ctx(program, tier, prop)
        results = []
        for rule in spec["rules"]:
            if tier == "quick" and getattr(rule, "thorough_only", False):
                continue
            try:
                r = rule(ctx)
            except AnalysisIncomplete as e:
                # this rule could not be completed: recorded as undecided (exit 2 unless another rule has a
                # finding to report), the other rules of the property still run
                from .report import RuleResult

                r = RuleResult(getattr(rule, "__name__", "rule"), "rule could not be completed")
                r.undecide("analysis incomplete", str(e))
            if isinstance(r, list):
                results.extend(r)
            else:
                results.append(r)
        canary_report = []
        from . import canary, canary_defs  # noqa: F401  (registers the canaries)

        canary_report = canary.run_for(prop, tier)
    except AnalysisIncomplete as e:
        print("ANALYSIS-INCOMPLETE property=%s %s" % (prop, e))
        return 2
    except Exception:
        traceback.print_exc()
        print("ANALYSIS-ERROR property=%s internal error (see traceback)" % prop)
        return 2

    known = load_known()
    violations = []
    known_hits = []
    undecided = []
    instances = 0
    nontrivial = set()
    samples = []
    rule_summ = []
    for r in results:
        fs = dedupe(r.findings)
        instances += len(r.instances)
        nontrivial |= {(r.rule, i) for i in r.nontrivial}
        undecided.extend("%s: %s" % (r.rule, u) for u in r.undecided)
        for f in fs:
            k = is_known(known, prop, f)
            if k is not None:
                known_hits.append((f, k))
            else:
                violations.append(f)
        for i in r.instances[:3]:
            samples.append({"rule": r.rule, "instance": i, "verdict": "ok"})
        for f in fs[:3]:
            samples.append({"rule": r.rule, "instance": "%s:%s" % (f.file, f.qualname), "construct": f.construct, "verdict": "finding", "message": f.message})
        rule_summ.append({"rule": r.rule, "description": r.description, "instances": len(r.instances), "findings": len(fs), "undecided": len(r.undecided), "notes": r.notes[:6]})
    bad_canaries = [c for c in canary_report if not c["ok"]]

    code = 0
    out_lines = []
    for f, k in known_hits:
        out_lines.append("KNOWN-FINDING: property=%s %s %s:%s `%s` -- %s" % (prop, f.rule, f.file, f.qualname, f.construct, k.get("what", f.message)))
    viol_paths = []
    if not os.environ.get("NFSTATIC_NOWRITE"):
        # replay files of earlier runs of this property are stale now
        import glob

        for old in glob.glob(os.path.join(evidence_dir, "violations", "%s-*.json" % prop)):
            try:
                os.remove(old)
            except OSError:
                pass
    if violations:
        code = 1
        vdir = os.path.join(evidence_dir, "violations")
        if os.environ.get("NFSTATIC_NOWRITE"):
            vdir = os.path.join(program.repo, ".violations")
        os.makedirs(vdir, exist_ok=True)
        for n, f in enumerate(violations):
            path = os.path.join(vdir, "%s-%s-%d.json" % (prop, f.rule, n))
            with open(path, "w") as fh:
                json.dump({"property": prop, "tier": tier, **f.to_json()}, fh, indent=1)
            viol_paths.append(path)
            out_lines.append("%s:%d: [%s] %s in %s: %s" % (f.file, f.line, f.rule, f.construct, f.qualname, f.message))
            if f.witness:
                out_lines.append("    witness: %s" % " -> ".join(map(str, f.witness)))
            out_lines.append("VIOLATION property=%s replay=%s" % (prop, path))
    if code == 0 and (undecided or bad_canaries):
        code = 2
        for u in undecided:
            out_lines.append("ANALYSIS-INCOMPLETE property=%s undecided instance: %s" % (prop, u))
        for c in bad_canaries:
            out_lines.append("ANALYSIS-INCOMPLETE property=%s canary %s: %s" % (prop, c["name"], c["why"]))

    wall = time.time() - t0
    level = spec.get("level", "other")
    coverage = {
        "evaluations": max(instances, 1),
        "distinct_nontrivial": len(nontrivial),
        "rule": "one evaluation = one rule instance (call site / write site / class x direction / obligation) decided on /repo's current sources; non-trivial = the instance exercised a rule (not merely enumerated); distinct by (rule, construct)",
        "samples": samples[:12] or [{"note": "no instances"}],
        "explanation": spec["explanation"],
        "rules": rule_summ,
        "files_analysed": len(program.modules),
        "source_digest": _digest(program),
        "canaries": canary_report,
        "known_findings_reported": [f.to_json() for f, _ in known_hits],
        "undecided": undecided,
        "exhaustive": True,
    }
    if level == "proof":
        obligations = instances
        discharged = instances - sum(len(dedupe(r.findings)) for r in results) - len(undecided)
        coverage.update(
            {
                "obligations": obligations,
                "discharged": max(discharged, 0),
                "checker_cmd": "python3 -m nfstatic.check %s --tier %s" % (prop, tier),
                "trusted_base": spec.get("trusted_base", []),
            }
        )
    for r in results:
        extra = getattr(r, "extra_coverage", None)
        if extra:
            coverage.update(extra)
    ev = {
        "property_id": prop,
        "tier": tier,
        "seed": int(os.environ.get("VERIF_SEED", "0") or 0),
        "level": level,
        "coverage": coverage,
        "assumptions": spec.get("assumptions", []),
        "wall_s": round(wall, 3),
        "violations": len(violations),
    }
    if write and not os.environ.get("NFSTATIC_NOWRITE"):
        os.makedirs(evidence_dir, exist_ok=True)
        with open(os.path.join(evidence_dir, "%s.json" % prop), "w") as fh:
            json.dump(ev, fh, indent=1, sort_keys=True)
    print("%s [%s] %d rule instances over %d files, %d rules, %d known findings, %d violations, %.2fs" % (prop, tier, instances, len(program.modules), len(results), len(known_hits), len(violations), wall))
    for r in rule_summ:
        print("  %-14s instances=%-4d findings=%d  %s" % (r["rule"], r["instances"], r["findings"], r["description"]))
    for line in out_lines:
        print(line)
    return code


def _digest(program):
    import hashlib

    h = hashlib.sha256()
    for k in sorted(program.digests):
        h.update(k.encode())
        h.update(program.digests[k].encode())
    return h.hexdigest()[:16]


def replay(prop, path):
    with open(path) as f:
        v = json.load(f)
    print("replaying %s: rule %s at %s:%s `%s`" % (path, v["rule"], v["file"], v["function"], v["construct"]))
    code = run_property(prop, v.get("tier", "quick"), write=False)
    return code


def main(argv=None):
    ap = argparse.ArgumentParser()
    ap.add_argument("property")
    ap.add_argument("--tier", default=os.environ.get("VERIF_TIER", "quick"), choices=["quick", "thorough"])
    ap.add_argument("--replay")
    ap.add_argument("--repo")
    a = ap.parse_args(argv)
    if a.replay:
        return replay(a.property, a.replay)
    from . import REPO

    if a.repo and os.path.realpath(a.repo) != os.path.realpath(REPO):
        # a scratch tree: evidence under /verif describes /repo only
        os.environ.setdefault("NFSTATIC_NOWRITE", "1")
    return run_property(a.property, a.tier, a.repo)


if __name__ == "__main__":
    import signal

    try:
        signal.signal(signal.SIGPIPE, signal.SIG_DFL)
    except Exception:
        pass
    try:
        rc = main()
    except SystemExit:
        raise
    except Exception:
        traceback.print_exc()
        print("ANALYSIS-ERROR internal error")
        rc = 2
    sys.stdout.flush()
    os._exit(rc)
