"""What a small helper returns, as an expression of its arguments.

`value_of_call(p, module, call)`: when `call` resolves to a module-level function (or a static / class method given as
FuncInfo) all of whose `return` statements yield the same expression once locals bound exactly once are read
through, that expression with the parameters replaced by the call's arguments; None otherwise.  Used where a
rule compares a constructor-time value with a specification (`torch.arange(features)`) and the value has been
moved behind a factory or a (front-end-eliminated) memo table.
"""

import ast
import copy

from .model import FuncInfo, norm_text


def _returns(fn):
    out = []

    def rec(n):
        for ch in ast.iter_child_nodes(n):
            if isinstance(ch, (ast.FunctionDef, ast.AsyncFunctionDef, ast.Lambda, ast.ClassDef)):
                continue
            if isinstance(ch, ast.Return):
                out.append(ch)
            rec(ch)

    rec(fn)
    return out


def returned_expr(fn):
    rets = _returns(fn)
    if not rets or any(r.value is None for r in rets):
        return None

    def through(e, depth=0):
        if isinstance(e, ast.Name) and depth < 5:
            defs = [a.value for a in ast.walk(fn) if isinstance(a, ast.Assign) and any(isinstance(t, ast.Name) and t.id == e.id for t in a.targets)]
            if len(defs) == 1:
                return through(defs[0], depth + 1)
        return e

    vals = [through(r.value) for r in rets]
    if len({norm_text(v) for v in vals}) != 1:
        return None
    return vals[0]


def value_of_call(p, module, call, cls=None):
    f = call.func
    fi = None
    if isinstance(f, ast.Name):
        r = p.resolve_expr(module, f)
        fi = r if isinstance(r, FuncInfo) else None
    elif isinstance(f, ast.Attribute) and isinstance(f.value, ast.Name) and f.value.id in ("self", "cls") and cls is not None:
        fi = cls.lookup_method(f.attr)
    if fi is None or fi.is_lambda:
        return None
    e = returned_expr(fi.node)
    if e is None:
        return None
    params = [a for a, _ in fi.params()]
    va = fi.node.args.vararg.arg if fi.node.args.vararg is not None else None
    if va is not None and not params and len(call.args) == 1 and isinstance(call.args[0], ast.Starred) and not call.keywords:
        # f(*xs) with def f(*shape): the sequence itself
        bound = {va: call.args[0].value}
        free = {n.id for n in ast.walk(e) if isinstance(n, ast.Name)}
        local_names = {t.id for a in ast.walk(fi.node) if isinstance(a, ast.Assign) for t in a.targets if isinstance(t, ast.Name)}
        if free & local_names:
            return None

        class S0(ast.NodeTransformer):
            def visit_Name(self, n):
                if n.id in bound and isinstance(n.ctx, ast.Load):
                    return ast.copy_location(copy.deepcopy(bound[n.id]), n)
                return n

        return ast.fix_missing_locations(S0().visit(copy.deepcopy(e)))
    if any(isinstance(a, ast.Starred) for a in call.args) or len(call.args) > len(params):
        return None
    bound = dict(zip(params, call.args))
    for k in call.keywords:
        if k.arg is None or k.arg not in params:
            return None
        bound[k.arg] = k.value
    defaults = {a: d for a, d in fi.params() if d is not None}
    free = {n.id for n in ast.walk(e) if isinstance(n, ast.Name)}
    for pn in params:
        if pn in free and pn not in bound:
            if pn in defaults:
                bound[pn] = defaults[pn]
            else:
                return None
    # locals of the helper that are not parameters must not remain
    local_names = {t.id for a in ast.walk(fi.node) if isinstance(a, ast.Assign) for t in a.targets if isinstance(t, ast.Name)}
    if (free & local_names) - set(params):
        return None

    class S(ast.NodeTransformer):
        def visit_Name(self, n):
            if n.id in bound and isinstance(n.ctx, ast.Load):
                return ast.copy_location(copy.deepcopy(bound[n.id]), n)
            return n

    return ast.fix_missing_locations(S().visit(copy.deepcopy(e)))
