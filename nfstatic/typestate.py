"""Typestate engine (DESIGN 1.7): executes the *bodies* of a class's life-cycle methods over a
finite abstract store and computes the reachable states under all event sequences.

The transfer function of every event is derived from the method bodies found in /repo on this
run (which flags they test, which fields they read, fill, clear); nothing about the methods is
assumed except the T-NN semantics of the nn.Module base (`super().train(mode)` sets the flag,
`super()._apply/_load_from_state_dict` change the parameters).
"""

import ast
from collections import deque

from .astutil import attr_chain
from .model import AnalysisIncomplete, ClassInfo, PLAIN, norm_text

UNK = "?"


class Outcome:
    __slots__ = ("store", "kind", "value")

    def __init__(self, store, kind="next", value=None):
        self.store = store
        self.kind = kind  # next | return | raise
        self.value = value


class StoreExec:
    def __init__(self, p, cls, tracked, hooks):
        """tracked: iterable of attribute paths relative to self ('training', 'cache.weight')."""
        self.p = p
        self.cls = cls
        self.tracked = set(tracked)
        self.roots = {t.split(".")[0] for t in self.tracked}
        self.hooks = hooks
        self.relevant = self._relevant_methods()
        self.depth = 0
        self.executed_methods = set()

    # -- which methods can touch / observe the tracked state -----------------------------------
    def _mentions(self, fi):
        sn = fi.self_name()
        if sn is None:
            return False
        for n in ast.walk(fi.node):
            if isinstance(n, ast.Attribute) and isinstance(n.value, ast.Name) and n.value.id == sn and n.attr in self.roots:
                return True
        return False

    def _relevant_methods(self):
        methods = {}
        for c in self.cls.repo_mro():
            for name, fi in c.methods.items():
                methods.setdefault((c, name), fi)
        rel = {k for k, fi in methods.items() if self._mentions(fi)}
        changed = True
        while changed:
            changed = False
            for k, fi in methods.items():
                if k in rel:
                    continue
                for n in ast.walk(fi.node):
                    if isinstance(n, ast.Call) and isinstance(n.func, ast.Attribute):
                        callee = n.func.attr
                        if any(kk[1] == callee for kk in rel):
                            base = n.func.value
                            if (isinstance(base, ast.Name) and base.id == fi.self_name()) or (isinstance(base, ast.Call) and isinstance(base.func, ast.Name) and base.func.id == "super"):
                                rel.add(k)
                                changed = True
                                break
        return {(c.name, name) for c, name in rel}

    def is_relevant(self, fi):
        return fi.cls is not None and (fi.cls.name, fi.name) in self.relevant

    # -- execution ---------------------------------------------------------------------------------
    def run_method(self, name, args, store, after=None, prefix="", owner=None):
        """All outcomes of calling self.<name>(*args) in `store`. args: dict param -> const/UNK."""
        cls = owner or self.cls
        fi = cls.lookup_method(name, after=after)
        if fi is None:
            return None
        return self.run_func(fi, args, store, prefix)

    def run_func(self, fi, args, store, prefix=""):
        self.depth += 1
        if self.depth > 30:
            raise AnalysisIncomplete("typestate: call depth exceeded in %s" % fi.qualname)
        self.executed_methods.add(fi.qualname)
        store = dict(store)
        self.hooks.on_enter(self, fi, store)
        try:
            local = {}
            for (pname, default) in fi.params():
                if pname in args:
                    local[pname] = args[pname]
                elif isinstance(default, ast.Constant):
                    local[pname] = default.value
                else:
                    local[pname] = UNK
            outs = []
            ctx = {"func": fi, "prefix": prefix, "self": fi.self_name(), "aliases": {}}
            for pname, v in list(local.items()):
                if isinstance(v, tuple) and len(v) == 2 and v[0] == "ALIAS":
                    ctx["aliases"][pname] = v[1]
                    local[pname] = UNK
            for o in self.exec_block(fi.node.body, dict(store), local, ctx):
                if o.kind == "next":
                    outs.append(Outcome(o.store, "return", None))
                else:
                    outs.append(o)
            return outs
        finally:
            self.depth -= 1

    def exec_block(self, stmts, store, local, ctx):
        if not stmts:
            return [Outcome(store, "next")]
        st = stmts[0]
        rest = stmts[1:]
        results = []
        for o, loc in self.exec_stmt(st, store, local, ctx):
            if o.kind == "next":
                results.extend(self.exec_block(rest, o.store, loc, ctx))
            else:
                results.append(o)
        return results

    def exec_stmt(self, st, store, local, ctx):
        """Yields (Outcome, locals)."""
        if isinstance(st, (ast.Pass,)):
            return [(Outcome(store), local)]
        if isinstance(st, ast.Expr) and isinstance(st.value, ast.Constant):
            return [(Outcome(store), local)]
        if isinstance(st, ast.If):
            out = []
            for store1, verdict, raised in self.eval_test(st.test, store, local, ctx):
                if raised:
                    out.append((Outcome(store1, "raise", raised), local))
                    continue
                branches = [True, False] if verdict is UNK else [bool(verdict)]
                for b in branches:
                    for o in self.exec_block(st.body if b else st.orelse, dict(store1), dict(local), ctx):
                        out.append((o, local))
            return out
        if isinstance(st, ast.Raise):
            exc = norm_text(st.exc.func) if isinstance(st.exc, ast.Call) else (norm_text(st.exc) if st.exc is not None else "")
            return [(Outcome(store, "raise", exc), local)]
        if isinstance(st, ast.Assert):
            return [(Outcome(store), local)]
        if isinstance(st, ast.Return):
            out = []
            for store1, val, raised in self.eval_expr(st.value, store, local, ctx):
                out.append((Outcome(store1, "raise", raised) if raised else Outcome(store1, "return", val), local))
            return out
        if isinstance(st, ast.Expr):
            return [(Outcome(s1, "raise", r) if r else Outcome(s1), local) for s1, _, r in self.eval_expr(st.value, store, local, ctx)]
        if isinstance(st, ast.Assign):
            out = []
            for store1, val, raised in self.eval_expr(st.value, store, local, ctx):
                if raised:
                    out.append((Outcome(store1, "raise", raised), local))
                    continue
                loc = dict(local)
                s2 = dict(store1)
                for t in st.targets:
                    self.assign(t, val, st.value, s2, loc, ctx, st)
                out.append((Outcome(s2), loc))
            return out
        if isinstance(st, ast.AugAssign):
            out = []
            for store1, val, raised in self.eval_expr(st.value, store, local, ctx):
                if raised:
                    out.append((Outcome(store1, "raise", raised), local))
                    continue
                s2 = dict(store1)
                path = self.tracked_path(st.target, ctx)
                if path is not None:
                    self.hooks.on_read(self, path, s2.get(path), st, s2, ctx)
                    self.hooks.on_write(self, path, "augassign", st, s2, ctx, local)
                elif isinstance(st.target, ast.Name):
                    local = dict(local)
                    local[st.target.id] = UNK
                out.append((Outcome(s2), local))
            return out
        if isinstance(st, ast.With):
            ng = any("no_grad" in norm_text(i.context_expr) for i in st.items)
            ctx2 = dict(ctx)
            if ng:
                ctx2["nograd"] = True
            return [(o, local) for o in self.exec_block(st.body, store, local, ctx2)]
        if isinstance(st, ast.For) and isinstance(st.iter, (ast.Tuple, ast.List)) and 0 < len(st.iter.elts) <= 8 and not st.orelse:
            # a loop over a literal sequence: the sequence of its bodies (the loop variables may
            # alias tracked state: `for running, batch in ((self.running_mean, mean), ...)`)
            live = [(Outcome(store), dict(local))]
            finished = []
            for elt in st.iter.elts:
                nxt = []
                for o, loc in live:
                    loc2 = dict(loc)
                    s2 = dict(o.store)
                    ctx["aliases"] = dict(ctx.get("aliases") or {})
                    self.assign(st.target, UNK, elt, s2, loc2, ctx, st)
                    for o2 in self.exec_block(st.body, s2, loc2, ctx):
                        if o2.kind == "next":
                            nxt.append((o2, loc2))
                        else:
                            finished.append((o2, loc2))
                live = nxt
            return live + finished
        if isinstance(st, (ast.For, ast.While)):
            # loops in life-cycle methods: execute the body once (state effects are idempotent
            # for the stores the repository performs); anything else is unsupported
            for n in ast.walk(st):
                if self.tracked_path(n, ctx) is not None and isinstance(getattr(n, "ctx", None), ast.Store):
                    raise AnalysisIncomplete("typestate: tracked state written inside a loop in %s" % ctx["func"].qualname)
            return [(Outcome(store), local)]
        if isinstance(st, (ast.FunctionDef, ast.Import, ast.ImportFrom, ast.Delete)):
            return [(Outcome(store), local)]
        if isinstance(st, ast.Try):
            # try / except around checks and look-ups: the body must not write tracked state (a handler could
            # then start from a half-written state); handlers start from the state before the body (an
            # exception of an operation the engine does not model) and from every modelled raise
            for n in ast.walk(st):
                if self.tracked_path(n, ctx) is not None and isinstance(getattr(n, "ctx", None), ast.Store):
                    raise AnalysisIncomplete("typestate: tracked state written inside a try statement in %s" % ctx["func"].qualname)
            outs = []
            loc_after = dict(local)
            for a in ast.walk(ast.Module(body=list(st.body) + list(st.orelse), type_ignores=[])):
                if isinstance(a, ast.Name) and isinstance(a.ctx, ast.Store):
                    loc_after[a.id] = UNK
            for o in self.exec_block(list(st.body) + list(st.orelse), store, local, ctx):
                if o.kind == "raise" and st.handlers:
                    for h in st.handlers:
                        outs.extend(self.exec_block(h.body, o.store, local, ctx))
                else:
                    outs.append(o)
            for h in st.handlers:
                outs.extend(self.exec_block(h.body, store, local, ctx))
            if st.finalbody:
                fin = []
                for o in outs:
                    if o.kind == "next":
                        fin.extend(self.exec_block(st.finalbody, o.store, loc_after, ctx))
                    else:
                        fin.append(o)
                outs = fin
            return [(o, loc_after) for o in outs]
        raise AnalysisIncomplete("typestate: unsupported statement %s in %s" % (type(st).__name__, ctx["func"].qualname))

    # -- expressions ----------------------------------------------------------------------------------
    def tracked_path(self, node, ctx):
        if isinstance(node, ast.Attribute) and node.attr == "data":
            node = node.value
        ch = attr_chain(node)
        if ch is None:
            return None
        sn = ctx["self"]
        # a local name (or a callee's parameter) bound to tracked state: `cache = self.cache`,
        # `def _update(self, running_stat, ...)` called with self.running_mean
        aliases = ctx.get("aliases") or {}
        root = ch.split(".", 1)[0]
        if root in aliases and root != sn:
            path = aliases[root] + ("." + ch.split(".", 1)[1] if "." in ch else "")
            return path if path in self.tracked else None
        if sn is None or not ch.startswith(sn + "."):
            return None
        path = ctx["prefix"] + ch[len(sn) + 1 :]
        return path if path in self.tracked else None

    def alias_target(self, node, ctx):
        """the tracked path, or the root object holding tracked paths, an expression refers to"""
        p = self.tracked_path(node, ctx)
        if p is not None:
            return p
        ch = attr_chain(node)
        sn = ctx["self"]
        if ch and sn and ch.startswith(sn + ".") and not ctx["prefix"]:
            sub = ch[len(sn) + 1 :]
            if sub in self.roots:
                return sub
        aliases = ctx.get("aliases") or {}
        if isinstance(node, ast.Name) and node.id in aliases:
            return aliases[node.id]
        return None

    def const_of(self, node, local, store, ctx):
        if node is None:
            return None
        if isinstance(node, ast.Call) and id(node) in (ctx.get("callvals") or {}):
            return ctx["callvals"][id(node)]
        if isinstance(node, ast.Constant):
            return node.value
        if isinstance(node, ast.Name):
            return local.get(node.id, UNK)
        p = self.tracked_path(node, ctx)
        if p is not None:
            return store.get(p, UNK)
        if isinstance(node, ast.UnaryOp) and isinstance(node.op, ast.Not):
            v = self.const_of(node.operand, local, store, ctx)
            return UNK if v is UNK else (not v)
        if isinstance(node, ast.BoolOp) or (isinstance(node, ast.Compare) and len(node.ops) == 1 and isinstance(node.ops[0], (ast.Is, ast.IsNot))):
            # a named condition: `need_weight = cache.weight is None`
            return self.truth(node, store, local, ctx)
        if isinstance(node, ast.Call):
            # torch.tensor(True, dtype=...) / torch.as_tensor(False)
            f = norm_text(node.func)
            if f in ("torch.tensor", "torch.as_tensor") and node.args and isinstance(node.args[0], ast.Constant):
                return node.args[0].value
        return UNK

    def eval_test(self, test, store, local, ctx):
        """[(store, True/False/UNK)] -- evaluates relevant calls inside the test first."""
        out = []
        for store1, verdict, raised in self.eval_expr(test, store, local, ctx, as_test=True):
            out.append((store1, UNK if raised else verdict, raised))
        return out

    def truth(self, t, store, local, ctx):
        if isinstance(t, ast.BoolOp):
            vals = [self.truth(v, store, local, ctx) for v in t.values]
            if isinstance(t.op, ast.And):
                if any(v is False for v in vals):
                    return False
                if all(v is True for v in vals):
                    return True
                return UNK
            if any(v is True for v in vals):
                return True
            if all(v is False for v in vals):
                return False
            return UNK
        if isinstance(t, ast.UnaryOp) and isinstance(t.op, ast.Not):
            v = self.truth(t.operand, store, local, ctx)
            return UNK if v is UNK else (not v)
        if isinstance(t, ast.Compare) and len(t.ops) == 1 and isinstance(t.ops[0], (ast.Is, ast.IsNot, ast.Eq, ast.NotEq)):
            c = t.comparators[0]
            if isinstance(c, ast.Constant):
                v = self.const_of(t.left, local, store, ctx)
                if v is UNK:
                    return UNK
                if isinstance(t.ops[0], (ast.Is, ast.IsNot)):
                    r = v is c.value
                    if isinstance(v, str) and c.value is not None and not isinstance(c.value, str):
                        r = False  # an abstract "filled" value is no constant
                    return r if isinstance(t.ops[0], ast.Is) else (not r)
                if isinstance(v, str) and not isinstance(c.value, str):
                    return UNK
                r = v == c.value
                return r if isinstance(t.ops[0], ast.Eq) else (not r)
            return UNK
        if isinstance(t, ast.Compare):
            return UNK
        v = self.const_of(t, local, store, ctx)
        if v is UNK:
            return UNK
        if isinstance(v, str):
            return True  # a filled field (tensor object)
        return bool(v)

    def eval_expr(self, node, store, local, ctx, as_test=False):
        """Executes the state-relevant calls inside `node` in evaluation order and reports the
        reads of tracked paths.  Returns [(store, value, raised)]: value is a constant or UNK,
        raised is the exception text if a callee raised (the statement is then abandoned)."""
        if node is None:
            return [(store, None, None)]
        calls = []
        self._collect_calls(node, ctx, calls)
        live = [(store, {})]
        results = []
        for call, kind, info in calls:
            nxt = []
            for s, vals in live:
                for o in self._do_call(call, kind, info, s, local, ctx):
                    if o.kind == "raise":
                        results.append((o.store, UNK, o.value or "exception"))
                    else:
                        v2 = dict(vals)
                        v2[id(call)] = o.value
                        nxt.append((o.store, v2))
            live = nxt
        for s, vals in live:
            self._report_reads(node, s, local, ctx)
            # what the state-relevant calls inside the expression returned is known for this state
            ctx2 = dict(ctx, callvals=vals)
            if as_test:
                results.append((s, self.truth(node, s, local, ctx2), None))
            elif isinstance(node, ast.Call) and id(node) in vals:
                results.append((s, vals[id(node)], None))
            else:
                results.append((s, self.const_of(node, local, s, ctx2), None))
        return results

    def _collect_calls(self, node, ctx, out):
        for child in ast.iter_child_nodes(node):
            self._collect_calls(child, ctx, out)
        if isinstance(node, ast.Call) and isinstance(node.func, ast.Attribute):
            base = node.func.value
            sn = ctx["self"]
            if isinstance(base, ast.Name) and base.id == sn and not ctx["prefix"]:
                fi = self.cls.lookup_method(node.func.attr)
                passes_state = any(self.alias_target(a, ctx) is not None for a in list(node.args) + [k.value for k in node.keywords])
                if fi is not None and (self.is_relevant(fi) or passes_state):
                    out.append((node, "self", fi))
            elif isinstance(base, ast.Call) and isinstance(base.func, ast.Name) and base.func.id == "super":
                out.append((node, "super", node.func.attr))
            elif self.tracked_path(base, ctx) is not None and node.func.attr.endswith("_") and not node.func.attr.endswith("__"):
                out.append((node, "inplace", self.tracked_path(base, ctx)))
            elif self._inplace_chain_root(base, ctx) is not None and node.func.attr.endswith("_") and not node.func.attr.endswith("__"):
                out.append((node, "inplace", self._inplace_chain_root(base, ctx)))
            else:
                ch = attr_chain(base)
                if ch is not None and sn is not None and ch.startswith(sn + "."):
                    sub = ch[len(sn) + 1 :]
                    if "." not in sub and not ctx["prefix"]:
                        ai = self.p.attrs(self.cls).get(sub)
                        if ai is not None and ai.kind == PLAIN and isinstance(ai.extra, ClassInfo) and sub in self.roots:
                            out.append((node, "sub", (sub, ai.extra)))

    def _inplace_chain_root(self, base, ctx):
        """x.mul_(..).add_(..): the receiver of the outer in-place call is the inner one's."""
        n = base
        while isinstance(n, ast.Call) and isinstance(n.func, ast.Attribute) and n.func.attr.endswith("_") and not n.func.attr.endswith("__"):
            n = n.func.value
            p = self.tracked_path(n, ctx)
            if p is not None:
                return p
        return None

    def _args_of(self, call, fi, local, store, ctx):
        args = {}
        params = [p for p, _ in fi.params()]
        for i, a in enumerate(call.args):
            if i < len(params):
                t = self.alias_target(a, ctx)
                args[params[i]] = ("ALIAS", t) if t is not None else self.const_of(a, local, store, ctx)
        for kw in call.keywords:
            if kw.arg is not None:
                t = self.alias_target(kw.value, ctx)
                args[kw.arg] = ("ALIAS", t) if t is not None else self.const_of(kw.value, local, store, ctx)
        return args

    def _do_call(self, call, kind, info, store, local, ctx):
        if kind == "inplace":
            s2 = dict(store)
            self.hooks.on_inplace(self, info, call.func.attr, call, s2, local, ctx)
            return [Outcome(s2, "return", UNK)]
        if kind == "self":
            return self.run_func(info, self._args_of(call, info, local, store, ctx), store)
        if kind == "sub":
            sub, subcls = info
            fi = subcls.lookup_method(call.func.attr)
            if fi is None:
                return [Outcome(store, "return", UNK)]
            return self.run_func(fi, self._args_of(call, fi, local, store, ctx), store, prefix=sub + ".")
        if kind == "super":
            owner = ctx["func"].cls
            fi = self.cls.lookup_method(info, after=owner) if owner in self.cls.repo_mro() else None
            if fi is not None:
                if self.is_relevant(fi):
                    return self.run_func(fi, self._args_of(call, fi, local, store, ctx), store)
                return [Outcome(store, "return", UNK)]
            args = [self.const_of(a, local, store, ctx) for a in call.args]
            s2 = dict(store)
            val = self.hooks.external_super(self, info, args, s2, ctx)
            return [Outcome(s2, "return", val)]
        return [Outcome(store, "return", UNK)]

    def _report_reads(self, node, store, local, ctx):
        skip = set()
        for n in ast.walk(node):
            if isinstance(n, ast.Compare) and len(n.ops) == 1 and isinstance(n.ops[0], (ast.Is, ast.IsNot)):
                c = n.comparators[0]
                if isinstance(c, ast.Constant) and c.value is None:
                    skip.add(id(n.left))
        for n in ast.walk(node):
            if isinstance(n, ast.Attribute) and isinstance(n.ctx, ast.Load) and id(n) not in skip:
                p = self.tracked_path(n, ctx)
                par = getattr(n, "_parent", None)
                if p is not None and not (isinstance(par, ast.Attribute) and self.tracked_path(par, ctx) is not None and par.attr != "data"):
                    if isinstance(par, ast.Attribute) and par.attr == "data" and isinstance(par.ctx, ast.Store):
                        continue
                    self.hooks.on_read(self, p, store.get(p), n, store, ctx)

    def assign(self, target, val, value_node, store, local, ctx, st):
        if isinstance(target, (ast.Tuple, ast.List)):
            for i, e in enumerate(target.elts):
                sub_node = value_node.elts[i] if isinstance(value_node, (ast.Tuple, ast.List)) and len(value_node.elts) == len(target.elts) else None
                sub_val = self.const_of(sub_node, local, store, ctx) if sub_node is not None else UNK
                self.assign(e, sub_val, sub_node if sub_node is not None else value_node, store, local, ctx, st)
            return
        if isinstance(target, ast.Name):
            local[target.id] = val
            t = self.alias_target(value_node, ctx) if value_node is not None and isinstance(value_node, (ast.Attribute, ast.Name)) else None
            if t is not None:
                ctx.setdefault("aliases", {})[target.id] = t
            elif target.id in (ctx.get("aliases") or {}):
                del ctx["aliases"][target.id]
            return
        p = self.tracked_path(target, ctx)
        if p is not None:
            store[p] = self.hooks.stored_value(self, p, val, value_node, target, st, store, ctx)
            self.hooks.on_write(self, p, "assign", st, store, ctx, local)
            return
        # writes to untracked attributes / subscripts do not concern the typestate


class Hooks:
    def on_enter(self, ex, fi, store):
        pass

    def on_inplace(self, ex, path, meth, call, store, local, ctx):
        pass

    def on_read(self, ex, path, value, node, store, ctx):
        pass

    def on_write(self, ex, path, how, node, store, ctx, local):
        pass

    def stored_value(self, ex, path, val, value_node, target, st, store, ctx):
        return val

    def external_super(self, ex, name, args, store, ctx):
        return UNK


def freeze(store):
    return tuple(sorted(store.items(), key=lambda kv: kv[0]))


def explore(initial_states, events, step):
    """BFS over abstract states.  `events(state)` -> iterable of event labels enabled;
    `step(state_dict, event)` -> list of (next_state_dict, label).  Returns (states, transitions,
    parent map for witness reconstruction)."""
    seen = {}
    q = deque()
    for s in initial_states:
        fs = freeze(s)
        if fs not in seen:
            seen[fs] = None
            q.append(fs)
    ntrans = 0
    while q:
        fs = q.popleft()
        s = dict(fs)
        for ev in events(s):
            for nxt, label in step(dict(s), ev):
                ntrans += 1
                fn = freeze(nxt)
                if fn not in seen:
                    seen[fn] = (fs, label)
                    q.append(fn)
    return seen, ntrans


def trace_to(seen, fs):
    path = []
    cur = fs
    while seen.get(cur) is not None:
        prev, label = seen[cur]
        path.append(label)
        cur = prev
    return list(reversed(path))
