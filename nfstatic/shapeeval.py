"""Shape-level evaluation of the reshape helpers (DESIGN 8.9, rules UT-RESHAPE / UT-TILE).

Extends the axis-layout algebra of nfstatic/axes.py by the Python values the helpers compute
with: ints, axis sizes (`x.shape[i]`), shapes (lists of sizes, `x.shape[k:]`, `torch.Size([-1])
+ ...`), ranges and the type-check predicates.  A helper is evaluated on an argument of a given
rank whose axes are distinct atoms; the result is again a layout, which the rule compares with the
specification (e.g. merge_leading_dims(x, k): the first k atoms merged in order, the rest kept).

Facts about torch that are used (T-OPS): reshape / view / flatten regroup the row-major element
order; `expand` broadcasts size-1 axes; `repeat` tiles (copy index outermost), `repeat_interleave`
repeats each element consecutively (copy index innermost); and **a reduction with an empty list of
dims reduces over every axis** (`torch.sum(x, dim=[])` is `torch.sum(x)`).
"""

import ast

from .astutil import const_number
from .axes import AxisEval, Mismatch, Unknown, WILD, show
from .model import norm_text


class Sz:
    """the size of an axis: a product of size symbols (empty product = 1)"""

    def __init__(self, syms):
        self.syms = list(syms)

    def __repr__(self):
        return "Sz(%s)" % "*".join(str(s[-1]) if isinstance(s, tuple) else str(s) for s in self.syms)

    def __eq__(self, o):
        return isinstance(o, Sz) and sorted(map(repr, self.syms)) == sorted(map(repr, o.syms))

    def __hash__(self):
        return hash(tuple(sorted(map(repr, self.syms))))


class RaisesExc(Exception):
    def __init__(self, exc, node=None):
        Exception.__init__(self, exc)
        self.exc = exc
        self.node = node


class ShapeEval(AxisEval):
    def __init__(self, env, pyenv=None, program=None, module=None):
        AxisEval.__init__(self, env)
        self.pyenv = dict(pyenv or {})
        self.program = program
        self.module = module
        self.empty_dim_reductions = []
        self.depth = 0
        self.builtin_predicates = True  # False: the type-check predicates are evaluated from their source

    # -- python values ------------------------------------------------------------------------
    def is_tensor(self, e):
        try:
            self.ev(e)
            return True
        except (Unknown, Mismatch):
            return False

    def shape_of(self, e):
        lay = self.ev(e)
        return [Sz([a[1] for a in g]) for g in lay]

    def py(self, e):
        if isinstance(e, ast.Constant) and isinstance(e.value, bool):
            return e.value
        v = const_number(e)
        if v is not None and isinstance(v, (int, bool)) or (v is not None and float(v).is_integer()):
            return int(v) if not isinstance(v, bool) else v
        if isinstance(e, ast.Constant):
            if e.value is None or isinstance(e.value, (str, float)):
                return e.value
        if isinstance(e, ast.Name):
            if e.id in self.pyenv:
                return self.pyenv[e.id]
            raise Unknown("name %s" % e.id)
        if isinstance(e, (ast.List, ast.Tuple)):
            out = []
            for x in e.elts:
                if isinstance(x, ast.Starred):
                    out.extend(self._seq(self.py(x.value)))
                else:
                    out.append(self.py(x))
            return out
        if isinstance(e, ast.Attribute):
            if isinstance(e.value, ast.Name) and e.value.id == "operator":
                return ("opfn", e.attr)
            if e.attr == "shape":
                return self.shape_of(e.value)
            if e.attr == "ndim":
                return len(self.ev(e.value))
            raise Unknown("attribute %s" % e.attr)
        if isinstance(e, ast.Subscript):
            base = self.py(e.value)
            if isinstance(base, (list, tuple, range)):
                if isinstance(e.slice, ast.Slice):
                    lo = self.py(e.slice.lower) if e.slice.lower is not None else None
                    hi = self.py(e.slice.upper) if e.slice.upper is not None else None
                    st = self.py(e.slice.step) if e.slice.step is not None else None
                    if all(v is None or isinstance(v, int) for v in (lo, hi, st)):
                        return list(base)[slice(lo, hi, st)]
                    raise Unknown("symbolic slice")
                i = self.py(e.slice)
                if isinstance(i, int):
                    if not (-len(base) <= i < len(base)):
                        raise RaisesExc("IndexError", e)
                    return list(base)[i]
            raise Unknown("subscript of %r" % (base,))
        if isinstance(e, ast.UnaryOp):
            v = self.py(e.operand)
            if isinstance(e.op, ast.Not):
                return not self._truth(v)
            if isinstance(e.op, ast.USub) and isinstance(v, (int, float)):
                return -v
            if isinstance(e.op, ast.Invert) and isinstance(v, int):
                return ~v
            raise Unknown("unary")
        if isinstance(e, ast.BoolOp):
            # short-circuit, and the value of the deciding operand (Python semantics)
            last = None
            for v in e.values:
                last = self.py(v)
                t = self._truth(last)
                if isinstance(e.op, ast.And) and not t:
                    return last
                if isinstance(e.op, ast.Or) and t:
                    return last
            return last
        if isinstance(e, ast.Compare) and len(e.ops) == 1:
            op = e.ops[0]
            if isinstance(op, (ast.Is, ast.IsNot)) and isinstance(e.comparators[0], ast.Constant) and e.comparators[0].value is None:
                try:
                    a = self.py(e.left)
                    r = a is None
                except Unknown:
                    self.ev(e.left)  # a tensor: not None
                    r = False
                return r if isinstance(op, ast.Is) else not r
            a, b = self.py(e.left), self.py(e.comparators[0])
            if isinstance(a, (int, float)) and isinstance(b, (int, float)):
                return {ast.Eq: a == b, ast.NotEq: a != b, ast.Lt: a < b, ast.LtE: a <= b, ast.Gt: a > b, ast.GtE: a >= b}.get(type(op), None) if type(op) in (ast.Eq, ast.NotEq, ast.Lt, ast.LtE, ast.Gt, ast.GtE) else (self._unknown("comparison") if not isinstance(op, (ast.Is, ast.IsNot)) else ((a is b) == isinstance(op, ast.Is)))
            if isinstance(a, str) and isinstance(b, str) and isinstance(op, (ast.Eq, ast.NotEq)):
                return (a == b) == isinstance(op, ast.Eq)
            if isinstance(op, (ast.Lt, ast.LtE, ast.Gt, ast.GtE)) and (isinstance(a, (str, list, tuple)) or a is None) != (isinstance(b, (str, list, tuple)) or b is None):
                raise RaisesExc("TypeError", e)
            if isinstance(op, (ast.Is, ast.IsNot)):
                r = a is b if (a is None or b is None) else None
                if r is None:
                    raise Unknown("identity comparison")
                return r if isinstance(op, ast.Is) else not r
            if isinstance(op, (ast.Eq, ast.NotEq)) and isinstance(a, (Sz, list)) and isinstance(b, (Sz, list)):
                r = a == b
                return r if isinstance(op, ast.Eq) else not r
            raise Unknown("comparison of %r and %r" % (a, b))
        if isinstance(e, ast.BinOp):
            a, b = self.py(e.left), self.py(e.right)
            if isinstance(a, int) and isinstance(b, int):
                a, b = int(a), int(b)
                try:
                    if isinstance(e.op, ast.Add):
                        return a + b
                    if isinstance(e.op, ast.Sub):
                        return a - b
                    if isinstance(e.op, ast.Mult):
                        return a * b
                    if isinstance(e.op, ast.FloorDiv):
                        return a // b
                    if isinstance(e.op, ast.Mod):
                        return a % b
                    if isinstance(e.op, ast.BitAnd):
                        return a & b
                    if isinstance(e.op, ast.BitOr):
                        return a | b
                    if isinstance(e.op, ast.BitXor):
                        return a ^ b
                    if isinstance(e.op, ast.RShift) and 0 <= b < 64:
                        return a >> b
                    if isinstance(e.op, ast.LShift) and 0 <= b < 64:
                        return a << b
                    if isinstance(e.op, ast.Pow) and 0 <= b <= 16:
                        return a ** b
                except ZeroDivisionError:
                    raise RaisesExc("ZeroDivisionError", e)
            if isinstance(e.op, ast.Add) and isinstance(a, (list, tuple)) and isinstance(b, (list, tuple)):
                return list(a) + list(b)
            if isinstance(e.op, ast.Mult):
                if isinstance(a, (Sz, int)) and isinstance(b, (Sz, int)):
                    return Sz(self._syms(a) + self._syms(b))
                if isinstance(a, list) and isinstance(b, int):
                    return a * b
            raise Unknown("arithmetic on %r, %r" % (a, b))
        if isinstance(e, ast.IfExp):
            return self.py(e.body if self._truth(self.py(e.test)) else e.orelse)
        if isinstance(e, ast.Call):
            return self.pycall(e)
        raise Unknown(type(e).__name__)

    def _unknown(self, what):
        raise Unknown(what)

    def _truth(self, v):
        if isinstance(v, (bool, int)) or v is None:
            return bool(v)
        if isinstance(v, (list, tuple, range)):
            return len(v) > 0
        if isinstance(v, Sz):
            return True
        raise Unknown("truth of %r" % (v,))

    def _seq(self, v):
        if isinstance(v, (list, tuple, range)):
            return list(v)
        raise Unknown("not a sequence: %r" % (v,))

    def _syms(self, v):
        if isinstance(v, Sz):
            return list(v.syms)
        if isinstance(v, int) and not isinstance(v, bool):
            return [] if v == 1 else [("const", v)]
        raise Unknown("not a size: %r" % (v,))

    def pycall(self, c):
        f = c.func
        name = f.attr if isinstance(f, ast.Attribute) else (f.id if isinstance(f, ast.Name) else "")
        is_mod = isinstance(f, ast.Attribute) and isinstance(f.value, ast.Name) and f.value.id in ("torch", "np", "math", "check", "typechecks", "torchutils")
        if name == "__rest__" and len(c.args) == 2:
            k = const_number(c.args[1])
            base = self.py(c.args[0])
            if k is not None and isinstance(base, (list, tuple)):
                if len(base) < int(k):
                    raise RaisesExc("ValueError", c)
                return list(base)[int(k):]
            raise Unknown("rest")
        opfn = None
        if isinstance(f, ast.Name) and f.id in self.pyenv and isinstance(self.pyenv[f.id], tuple) and self.pyenv[f.id][:1] == ("opfn",):
            opfn = self.pyenv[f.id][1]
        elif isinstance(f, ast.Attribute) and isinstance(f.value, ast.Name) and f.value.id == "operator":
            opfn = f.attr
        if opfn is not None:
            op = opfn
            vals = [self.py(a) for a in c.args]
            cmp = {"gt": ast.Gt, "ge": ast.GtE, "lt": ast.Lt, "le": ast.LtE, "eq": ast.Eq, "ne": ast.NotEq}
            binop = {"add": ast.Add, "sub": ast.Sub, "mul": ast.Mult, "floordiv": ast.FloorDiv, "mod": ast.Mod, "and_": ast.BitAnd, "or_": ast.BitOr}
            if op in cmp and len(c.args) == 2:
                return self.py(ast.Compare(left=c.args[0], ops=[cmp[op]()], comparators=[c.args[1]]))
            if op in binop and len(c.args) == 2:
                return self.py(ast.BinOp(left=c.args[0], op=binop[op](), right=c.args[1]))
            if op == "not_" and len(c.args) == 1:
                return not self._truth(vals[0])
            raise Unknown("operator.%s" % op)
        if name == "__component__" and len(c.args) == 2:
            k = const_number(c.args[1])
            base = self.py(c.args[0])
            if k is not None and isinstance(base, (list, tuple)):
                if not (-len(base) <= int(k) < len(base)):
                    raise RaisesExc("ValueError", c)
                return base[int(k)]
            raise Unknown("component")
        if name == "isinstance" and len(c.args) == 2:
            v = self.py(c.args[0])
            types = c.args[1].elts if isinstance(c.args[1], ast.Tuple) else [c.args[1]]
            table = {"int": int, "bool": bool, "float": float, "str": str, "list": list, "tuple": tuple, "numbers.Integral": int, "numbers.Number": (int, float), "numbers.Real": (int, float)}
            if isinstance(v, Sz):
                raise Unknown("isinstance of a symbolic size")
            out = False
            for t in types:
                tn = norm_text(t)
                if tn not in table:
                    raise Unknown("isinstance(.., %s)" % tn)
                out = out or isinstance(v, table[tn])
            return out
        if name == "type" and len(c.args) == 1:
            v = self.py(c.args[0])
            return ("type", type(v).__name__)
        if name in ("bool",) and len(c.args) == 1:
            return self._truth(self.py(c.args[0]))
        if name in ("is_positive_int", "is_nonnegative_int", "is_int", "is_bool", "is_power_of_two") and len(c.args) == 1 and self.builtin_predicates:
            v = self.py(c.args[0])
            if isinstance(v, bool):
                return name == "is_bool"
            if isinstance(v, int):
                return {"is_positive_int": v > 0, "is_nonnegative_int": v >= 0, "is_int": True, "is_bool": False, "is_power_of_two": v > 0 and v & (v - 1) == 0}[name]
            if isinstance(v, Sz):
                if name in ("is_positive_int", "is_nonnegative_int", "is_int"):
                    return True  # a size of a non-empty axis
                raise Unknown(name + " of a symbolic size")
            return False
        if name in ("dim", "ndimension") and isinstance(f, ast.Attribute) and not c.args:
            return len(self.ev(f.value))
        if name == "size" and isinstance(f, ast.Attribute) and not is_mod:
            shp = self.shape_of(f.value)
            if not c.args:
                return shp
            i = self.py(c.args[0])
            if isinstance(i, int):
                if not (-len(shp) <= i < len(shp)):
                    raise RaisesExc("IndexError", c)
                return shp[i]
            raise Unknown("size(symbolic)")
        if name == "len" and len(c.args) == 1:
            try:
                lay = self.ev(c.args[0])
            except Unknown:
                lay = None
            if lay is not None:
                if not lay:
                    raise RaisesExc("TypeError", c)
                return Sz([a[1] for a in lay[0]])
            return len(self._seq(self.py(c.args[0])))
        if name in ("list", "tuple", "Size") and len(c.args) <= 1:
            return self._seq(self.py(c.args[0])) if c.args else []
        if name == "range":
            vals = [self.py(a) for a in c.args]
            if all(isinstance(v, int) for v in vals):
                return list(range(*vals))
            raise Unknown("symbolic range")
        if name in ("numel", "prod") and (isinstance(f, ast.Attribute) and not c.args and not is_mod):
            base = self.py(f.value)
            syms = []
            for v in self._seq(base):
                syms += self._syms(v)
            return Sz(syms)
        if name == "prod" and len(c.args) == 1:
            syms = []
            for v in self._seq(self.py(c.args[0])):
                syms += self._syms(v)
            return Sz(syms)
        if name == "int" and len(c.args) == 1:
            v = self.py(c.args[0])
            if isinstance(v, (bool, int, float)):
                return int(v)
            return v
        if name in ("divmod",) and len(c.args) == 2:
            a, b = self.py(c.args[0]), self.py(c.args[1])
            if isinstance(a, int) and isinstance(b, int):
                if b == 0:
                    raise RaisesExc("ZeroDivisionError", c)
                return list(divmod(a, b))
        if name in ("abs", "min", "max") and c.args:
            vals = [self.py(a) for a in c.args]
            if all(isinstance(v, (int, float)) for v in vals):
                return {"abs": abs, "min": min, "max": max}[name](*vals) if name != "abs" else abs(vals[0])
        if self.program is not None and (isinstance(f, ast.Name) or (isinstance(f, ast.Attribute) and isinstance(f.value, ast.Name) and f.value.id in ("check", "typechecks", "torchutils"))):
            fi = None
            if isinstance(f, ast.Name) and self.module is not None:
                fi = self.program.resolve_name(self.module, f.id)
            elif isinstance(f, ast.Attribute) and self.module is not None:
                fi = self.program.resolve_expr(self.module, f)
            if fi is not None and hasattr(fi, "params") and hasattr(fi, "node"):
                r = self._repo_call(name, c, fi)
                if isinstance(r, tuple) and len(r) == 2 and r[0] == "py":
                    return r[1]
                raise Unknown("%s returns a tensor" % name)
        raise Unknown("python call %s" % norm_text(c.func)[:30])

    # -- sizes for reshape ----------------------------------------------------------------------
    def sizes_of(self, e):
        try:
            v = self.py(e)
        except Unknown:
            return AxisEval.sizes_of(self, e)
        return self._spec(v)

    def _spec(self, v):
        if isinstance(v, int) and not isinstance(v, bool):
            if v == -1:
                return WILD
            return [] if v == 1 else [("const", v)]
        if isinstance(v, Sz):
            return list(v.syms)
        raise Unknown("not a size: %r" % (v,))

    def _size_args(self, rest):
        vals = []
        for a in rest:
            if isinstance(a, ast.Starred):
                vals.extend(self._seq(self.py(a.value)))
                continue
            v = self.py(a)
            if isinstance(v, (list, tuple)):
                vals.extend(v)
            else:
                vals.append(v)
        return vals

    def regroup_values(self, layout, vals, node):
        # reuse AxisEval.regroup by handing it pre-evaluated specs
        holders = []
        for v in vals:
            h = ast.Constant(value=0)
            h._spec = self._spec(v)
            holders.append(h)
        saved = self.sizes_of
        self.sizes_of = lambda e: e._spec if hasattr(e, "_spec") else saved(e)
        try:
            return AxisEval.regroup(self, layout, holders, node)
        finally:
            self.sizes_of = saved

    def _shape_op(self, name, recv, rest, node):
        if name == "permute":
            return AxisEval._shape_op(self, name, recv, rest, node)
        lay = self.ev(recv)
        vals = self._size_args(rest)
        try:
            return self.regroup_values(lay, vals, node)
        except Unknown:
            raise

    def _reduce(self, lay, c, pos):
        dim = next((k.value for k in c.keywords if k.arg in ("dim", "axis")), pos[0] if pos else None)
        op = c.func.attr if isinstance(c.func, ast.Attribute) else "?"
        if dim is None:
            self.reduced.append((op, tuple(a for g in lay for a in g)))
            return ()
        d = self.py(dim)
        dims = d if isinstance(d, (list, tuple)) else [d]
        if not all(isinstance(x, int) and not isinstance(x, bool) for x in dims):
            raise Unknown("reduction over non-constant axes")
        if len(dims) == 0:
            # T-OPS: an empty list of dims means "all of them"
            self.empty_dim_reductions.append(c)
            self.reduced.append((op, tuple(a for g in lay for a in g)))
            return ()
        for x in dims:
            if not (-len(lay) <= x < len(lay)):
                raise RaisesExc("IndexError", c)
        drop = {x % len(lay) for x in dims}
        keep = next((k.value for k in c.keywords if k.arg == "keepdim"), None)
        self.reduced.append((op, tuple(a for i, g in enumerate(lay) if i in drop for a in g)))
        if keep is not None and ((isinstance(keep, ast.Constant) and keep.value is True) or const_number(keep)):
            return tuple(() if i in drop else g for i, g in enumerate(lay))
        return tuple(g for i, g in enumerate(lay) if i not in drop)

    # -- more tensor operations -------------------------------------------------------------------
    def _rep_atom(self, v):
        syms = self._syms(v)
        label = "rep[%s]" % "*".join(str(s[-1]) if isinstance(s, tuple) else str(s) for s in syms)
        size = syms[0] if len(syms) == 1 else ("prod",) + tuple(map(repr, syms))
        return (label, size, False)

    def call(self, c):
        f = c.func
        if isinstance(f, ast.Attribute):
            name = f.attr
            is_mod = isinstance(f.value, ast.Name) and f.value.id in ("torch", "F", "torchutils", "np")
            recv = c.args[0] if is_mod and c.args else (None if is_mod else f.value)
            args = list(c.args[1:]) if is_mod else list(c.args)
            kw = {k.arg: k.value for k in c.keywords if k.arg}
            if recv is not None and name in ("unsqueeze",) and (args or "dim" in kw):
                lay = list(self.ev(recv))
                k = self.py(args[0] if args else kw["dim"])
                if not isinstance(k, int):
                    raise Unknown("unsqueeze")
                k = k if k >= 0 else len(lay) + 1 + k
                lay.insert(k, ())
                return tuple(lay)
            if recv is not None and name in ("t",) and not args:
                lay = list(self.ev(recv))
                if len(lay) == 2:
                    return (lay[1], lay[0])
                return tuple(lay)
            if recv is not None and name in ("transpose", "swapaxes") and len(args) == 2:
                lay = list(self.ev(recv))
                i, j = self.py(args[0]), self.py(args[1])
                if not (isinstance(i, int) and isinstance(j, int)):
                    raise Unknown("transpose")
                if not (-len(lay) <= i < len(lay) and -len(lay) <= j < len(lay)):
                    raise RaisesExc("IndexError", c)
                lay[i], lay[j] = lay[j], lay[i]
                return tuple(lay)
            if recv is not None and name == "expand":
                lay = list(self.ev(recv))
                vals = self._size_args(args)
                if len(vals) < len(lay):
                    raise RaisesExc("RuntimeError", c)
                lay = [()] * (len(vals) - len(lay)) + lay
                out = []
                for g, v in zip(lay, vals):
                    if isinstance(v, int) and v == -1:
                        out.append(g)
                    elif Sz([a[1] for a in g]) == (v if isinstance(v, Sz) else Sz(self._syms(v))):
                        out.append(g)
                    elif g == ():
                        out.append((self._rep_atom(v),))
                    else:
                        raise Mismatch("`%s` expands an axis %s that is not of size 1" % (norm_text(c)[:60], show((g,))), c)
                return tuple(out)
            if recv is not None and name == "repeat":
                lay = list(self.ev(recv))
                vals = self._size_args(args)
                if len(vals) < len(lay):
                    raise RaisesExc("RuntimeError", c)
                lay = [()] * (len(vals) - len(lay)) + lay
                out = []
                for g, v in zip(lay, vals):
                    if isinstance(v, int) and v == 1:
                        out.append(g)
                    else:
                        out.append((self._rep_atom(v),) + tuple(g))  # tiling: the copy index is outermost
                return tuple(out)
            if recv is not None and name == "repeat_interleave" and (args or "repeats" in kw):
                lay = list(self.ev(recv))
                n = self.py(args[0] if args else kw["repeats"])
                d = kw.get("dim", args[1] if len(args) > 1 else None)
                if d is None:
                    flat = tuple(a for g in lay for a in g)
                    return (flat + (self._rep_atom(n),),)
                dv = self.py(d)
                if not isinstance(dv, int) or not (-len(lay) <= dv < len(lay)):
                    raise Unknown("repeat_interleave dim")
                lay[dv] = tuple(lay[dv]) + (self._rep_atom(n),)  # each element repeated consecutively
                return tuple(lay)
            if recv is not None and name == "flatten":
                lay = list(self.ev(recv))
                s = self.py(kw.get("start_dim", args[0] if args else ast.Constant(value=0)))
                e2 = self.py(kw.get("end_dim", args[1] if len(args) > 1 else ast.Constant(value=-1)))
                if not (isinstance(s, int) and isinstance(e2, int)):
                    raise Unknown("flatten")
                if len(lay) == 0:
                    return ((),)
                if not (-len(lay) <= s < len(lay) and -len(lay) <= e2 < len(lay)):
                    raise RaisesExc("IndexError", c)
                s, e2 = s % len(lay), e2 % len(lay)
                if s > e2:
                    raise RaisesExc("RuntimeError", c)
                return tuple(lay[:s]) + (tuple(a for g in lay[s : e2 + 1] for a in g),) + tuple(lay[e2 + 1 :])
            if recv is not None and name == "unflatten" and len(args) == 2:
                lay = list(self.ev(recv))
                d = self.py(args[0])
                vals = self._seq(self.py(args[1]))
                if not isinstance(d, int):
                    raise Unknown("unflatten")
                d = d % len(lay)
                sub = self.regroup_values((lay[d],), vals, c)
                return tuple(lay[:d]) + tuple(sub) + tuple(lay[d + 1 :])
            if recv is not None and name in ("reshape", "view") and is_mod:
                return self._shape_op(name, recv, args, c)
            if recv is not None and name in ("sum", "mean", "prod") and is_mod:
                return self._reduce(self.ev(recv), c, args)
            if is_mod and name in ("as_tensor", "tensor", "clone", "detach", "contiguous") and c.args:
                return self.ev(c.args[0])
            # a helper of the repository: evaluate its body
            if self.program is not None and (is_mod and f.value.id == "torchutils"):
                return self._repo_call(name, c)
        if isinstance(f, ast.Name) and self.program is not None and self.module is not None and f.id not in ("__component__",):
            r = self.program.resolve_name(self.module, f.id)
            if r is not None and hasattr(r, "node") and hasattr(r, "params"):
                return self._repo_call(f.id, c, r)
        return AxisEval.call(self, c)

    def _repo_call(self, name, c, fi=None):
        if fi is None:
            mod = self.program.modules.get("nflows.utils.torchutils")
            fi = self.program.resolve_name(mod, name) if mod is not None else None
        if fi is None or not hasattr(fi, "params"):
            raise Unknown("call %s" % name)
        if self.depth > 4:
            raise Unknown("call depth")
        params = [a for a, _ in fi.params()]
        defaults = {a: d for a, d in fi.params()}
        bound = {}
        for i, a in enumerate(c.args):
            if i < len(params):
                bound[params[i]] = a
        for k in c.keywords:
            if k.arg:
                bound[k.arg] = k.value
        env, pyenv = {}, {}
        for pn in params:
            if pn in bound:
                try:
                    env[pn] = self.ev(bound[pn])
                except Unknown:
                    pyenv[pn] = self.py(bound[pn])
            elif defaults.get(pn) is not None:
                pyenv[pn] = ShapeEval({}, {}).py(defaults[pn])
            else:
                raise Unknown("missing argument %s of %s" % (pn, name))
        sub = ShapeEval(env, pyenv, self.program, fi.module)
        sub.depth = self.depth + 1
        sub.builtin_predicates = self.builtin_predicates
        r = sub.run(fi)
        self.reduced.extend(sub.reduced)
        self.empty_dim_reductions.extend(sub.empty_dim_reductions)
        return r

    def run(self, fi):
        """evaluate a function of the repository on the bound arguments: the feasible path's result"""
        from .symexp import paths_of

        undecided = None
        for path in paths_of(fi.node):
            feasible = True
            for et, raw, pol in path.conds:
                try:
                    v = self._truth(self.py(et))
                except Unknown as u:
                    undecided = u
                    feasible = None
                    break
                if v != pol:
                    feasible = False
                    break
            if feasible is None:
                continue
            if not feasible:
                continue
            if path.kind == "raise":
                ex = path.raise_exc
                if isinstance(ex, ast.Call):
                    ex = ex.func
                raise RaisesExc(norm_text(ex).split(".")[-1] if ex is not None else "Exception", getattr(path, "ret_node", None))
            if path.kind == "return" and path.ret is not None:
                try:
                    return self.ev(path.ret)
                except Unknown:
                    try:
                        return ("py", self.py(path.ret))
                    except Unknown as u:
                        u.past_guards = True  # every test on the way to this return was decided
                        raise
            return ("py", None)
        if undecided is not None:
            raise Unknown("cannot decide a branch of %s: %s" % (fi.qualname, undecided))
        raise Unknown("no feasible path through %s" % fi.qualname)
