"""A small partial evaluator: Python containers and control flow are evaluated concretely,
tensors stay symbolic terms (DESIGN 8.8).

Used where a property is about *bookkeeping* -- which piece goes where, in which order, through
which stage -- written with loops, generators, zips, slices and list reversals: the body is
evaluated for a few concrete stage counts with every tensor operation left as an uninterpreted
term, and the resulting term is compared with the term the specification prescribes.  Nothing
of the repository is imported or run; the evaluator walks the syntax tree.

Terms are nested tuples: ("out", stage, direction, argument, context), ("ld", ...), ("ch", t, k, dim)
for the k-th of two chunks, ("cat", (parts...), dim), ("flat", t), ("view", t, shape),
("slice", t, lo, hi), ("sum", (sorted terms...)), ("zeros",), ("dim0", t), ...
Anything the table does not know raises Undecided; the rule then reports the method as
undecided (exit 2), never as a violation.
"""

import ast

from .model import norm_text


class Undecided(Exception):
    pass


class Raises(Exception):
    """the evaluated code itself raises on these (valid) concrete arguments"""

    def __init__(self, what, node=None, exc=None):
        Exception.__init__(self, what)
        self.what = what
        self.node = node
        self.exc = exc  # name of the exception class of an explicit `raise`


def _exc_class(st):
    e = st.exc if isinstance(st, ast.Raise) else None
    if isinstance(e, ast.Call):
        e = e.func
    return norm_text(e).split(".")[-1] if e is not None else None


class _Return(Exception):
    def __init__(self, value):
        self.value = value


class Sym:
    """a symbolic tensor / number"""

    __slots__ = ("term",)

    def __init__(self, term):
        self.term = term

    def __repr__(self):
        return "Sym(%s)" % show(self.term)


class MList(list):
    """an nn.ModuleList: a list with an identity (who built it matters: a container handed in by the caller and
    stored as it is stays the caller's to change)"""


class Stage:
    """a sub-transform T_i"""

    def __init__(self, name):
        self.name = name


class Bound:
    """T_i.inverse / T_i.forward"""

    def __init__(self, stage, direction):
        self.stage = stage
        self.direction = direction


class Shape:
    """a recorded shape S_i (without the batch dimension)"""

    def __init__(self, name):
        self.name = name


class Obj:
    """`self` with a concrete attribute table; `methods`: name -> FunctionDef of the class (looked
    up for self.<name>(...) calls that are not in the attribute table)"""

    def __init__(self, attrs, methods=None):
        self.attrs = attrs
        self.methods = methods or {}


class BoundMethod:
    def __init__(self, obj, node):
        self.obj = obj
        self.node = node


class Index:
    """a symbolic index set (a buffer of feature indices)"""

    def __init__(self, name):
        self.name = name


class SymFn:
    """an uninterpreted function (sub-network, abstract hook): calls become ("call", name, args...)
    terms; with n_out == 2 the result is a pair of its two components"""

    def __init__(self, name, n_out=1):
        self.name = name
        self.n_out = n_out


class PIter:
    """a single-use iterator (reversed(...), iter(...), zip, map, enumerate, a generator
    expression): iterating it consumes it -- an object that stores one and iterates it on every
    call gets nothing from the second call on"""

    def __init__(self, items):
        self.items = list(items)


class Closure:
    def __init__(self, node, env, is_gen):
        self.node = node
        self.env = env
        self.is_gen = is_gen


class Env:
    def __init__(self, parent=None):
        self.vars = {}
        self.parent = parent

    def get(self, name):
        e = self
        while e is not None:
            if name in e.vars:
                return e.vars[name]
            e = e.parent
        raise Undecided("unbound name %s" % name)

    def set(self, name, v):
        self.vars[name] = v


def mk_sum(*terms):
    flat = []
    for t in terms:
        if t == 0 or t == ("zeros",):
            continue
        if isinstance(t, tuple) and t and t[0] == "sum":
            flat.extend(t[1])
        else:
            flat.append(t)
    nums = [t for t in flat if isinstance(t, (int, float)) and not isinstance(t, bool)]
    flat = [t for t in flat if not (isinstance(t, (int, float)) and not isinstance(t, bool))]
    if nums:
        total = sum(nums)
        if not flat:
            return total
        if total != 0:
            flat.append(total)
    if not flat:
        return ("zeros",)
    if len(flat) == 1:
        return flat[0]
    return ("sum", tuple(sorted(flat, key=repr)))


def show(t, depth=0):
    if isinstance(t, tuple) and t:
        h = t[0]
        if h == "out":
            return "%s%s(%s)" % (t[1], "^-1" if t[2] == "inv" else "", show(t[3]))
        if h == "ld":
            return "logdet[%s%s](%s)" % (t[1], "^-1" if t[2] == "inv" else "", show(t[3]))
        if h == "ch":
            return "chunk%d(%s)" % (t[2], show(t[1]))
        if h == "cat":
            return "cat[%s](%s)" % (t[2], ", ".join(show(x) for x in t[1]))
        if h == "sum":
            return " + ".join(show(x) for x in t[1])
        if h in ("flat", "view", "slice", "dim0"):
            return "%s(%s)" % (h, ", ".join(show(x) for x in t[1:]))
        return "%s(%s)" % (h, ", ".join(show(x) for x in t[1:]))
    return str(t)


class PEval:
    def __init__(self, self_obj, split_dim_text="self._split_dim", shapes=None):
        self.self_obj = self_obj
        self.steps = 0
        self.shapes = shapes or {}  # term -> concrete sizes of the non-batch axes
        self.simplify = None  # optional rewriting of freshly built terms (inverse cancellation ...)
        self.symfn_calls = []  # (name, arguments) of every uninterpreted function called so far

    def mk(self, term):
        return Sym(self.simplify(term) if self.simplify is not None else term)

    def _module_function(self, name):
        """FunctionDef of a module-level function of the repository module whose method is being evaluated"""
        from . import symexp

        mods = getattr(self, "_modules", None)
        if not mods:
            return None
        prog = symexp._CTX.get("program")
        if prog is None:
            return None
        for mname in mods:
            m = prog.modules.get(mname)
            fi = m.functions.get(name) if m is not None else None
            if fi is not None and not getattr(fi, "is_lambda", False):
                return fi.node
        return None

    def _imported_function(self, func):
        """Closure for `alias.name` where `alias` is an import of a repository module in one of
        the modules being evaluated and `name` a plain function of it; None otherwise"""
        from . import symexp

        if not (isinstance(func, ast.Attribute) and isinstance(func.value, ast.Name)):
            return None
        prog = symexp._CTX.get("program")
        if prog is None:
            return None
        for mname in getattr(self, "_modules", None) or []:
            m = prog.modules.get(mname)
            if m is None or func.value.id not in m.imports:
                continue
            try:
                r = prog.resolve_expr(m, func)
            except Exception:
                r = None
            node = getattr(r, "node", None)
            if isinstance(node, ast.FunctionDef) and not getattr(r, "is_lambda", False):
                is_gen = any(isinstance(n, (ast.Yield, ast.YieldFrom)) for n in ast.walk(node))
                self._note_module(node)
                return Closure(node, Env(), is_gen)
        return None

    def _note_module(self, fnode):
        from . import symexp

        fi = symexp._CTX["index"].get(id(fnode))
        if fi is not None:
            mods = getattr(self, "_modules", None)
            if mods is None:
                mods = self._modules = []
            mn = fi.module if isinstance(fi.module, str) else getattr(fi.module, "name", None)
            if mn and mn not in mods:
                mods.append(mn)

    # -- running a method -------------------------------------------------------------
    def call_method(self, fnode, args, kwargs=None):
        self._note_module(fnode)
        if kwargs:
            return self._run_function(fnode, list(args), kwargs, self.self_obj)
        env = Env()
        params = [a.arg for a in fnode.args.args]
        defaults = [None] * (len(params) - len(fnode.args.defaults)) + list(fnode.args.defaults)
        vals = [self.self_obj] + list(args)
        for i, pn in enumerate(params):
            if i < len(vals):
                env.set(pn, vals[i])
            elif defaults[i] is not None:
                env.set(pn, self.ev(defaults[i], env))
            else:
                raise Undecided("missing argument %s" % pn)
        try:
            self.block(fnode.body, env, None)
        except _Return as r:
            return r.value
        return None

    def _run_function(self, fnode, args, kwargs, self_val):
        env = Env()
        params = [a.arg for a in fnode.args.args]
        defaults = [None] * (len(params) - len(fnode.args.defaults)) + list(fnode.args.defaults)
        vals = ([self_val] if self_val is not None else []) + list(args)
        for i, pn in enumerate(params):
            if i < len(vals):
                env.set(pn, vals[i])
            elif pn in kwargs:
                env.set(pn, kwargs[pn])
            elif defaults[i] is not None:
                env.set(pn, self.ev(defaults[i], env))
            else:
                raise Undecided("missing argument %s" % pn)
        is_gen = any(isinstance(n, (ast.Yield, ast.YieldFrom)) for n in ast.walk(fnode))
        out = [] if is_gen else None
        try:
            self.block(fnode.body, env, out)
        except _Return as r:
            return out if is_gen else r.value
        return out if is_gen else None

    def call_closure(self, c, args):
        env = Env(c.env)
        params = [a.arg for a in c.node.args.args]
        if len(args) != len(params):
            raise Undecided("closure arity")
        for pn, v in zip(params, args):
            env.set(pn, v)
        if c.is_gen:
            out = []
            try:
                self.block(c.node.body, env, out)
            except _Return:
                pass
            return out
        try:
            self.block(c.node.body, env, None)
        except _Return as r:
            return r.value
        return None

    # -- statements ----------------------------------------------------------------------
    def block(self, stmts, env, yields):
        for st in stmts:
            self.stmt(st, env, yields)

    def stmt(self, st, env, yields):
        self.steps += 1
        if self.steps > 20000:
            raise Undecided("evaluation budget exceeded")
        if isinstance(st, (ast.Pass, ast.Assert, ast.Import, ast.ImportFrom)):
            return
        if isinstance(st, ast.Expr):
            if isinstance(st.value, ast.Constant):
                return
            if isinstance(st.value, ast.Yield):
                if yields is None:
                    raise Undecided("yield outside a generator")
                yields.append(self.ev(st.value.value, env) if st.value.value is not None else None)
                return
            if isinstance(st.value, ast.YieldFrom):
                if yields is None:
                    raise Undecided("yield outside a generator")
                yields.extend(self.iterate(self.ev(st.value.value, env)))
                return
            self.ev(st.value, env)
            return
        if isinstance(st, ast.Assign):
            v = self.ev(st.value, env)
            for t in st.targets:
                self.assign(t, v, env)
            return
        if isinstance(st, ast.AnnAssign):
            if st.value is not None:
                self.assign(st.target, self.ev(st.value, env), env)
            return
        if isinstance(st, ast.AugAssign):
            cur = self.ev(ast.Name(id=st.target.id, ctx=ast.Load()), env) if isinstance(st.target, ast.Name) else None
            if cur is None:
                raise Undecided("augmented assignment to %s" % norm_text(st.target))
            v = self.binop(st.op, cur, self.ev(st.value, env))
            env_set = self._owner(env, st.target.id)
            env_set.set(st.target.id, v)
            return
        if isinstance(st, ast.Return):
            raise _Return(self.ev(st.value, env) if st.value is not None else None)
        if isinstance(st, ast.If):
            # a guard that only raises: valid inputs are assumed (the guards are C17's)
            if st.body and all(isinstance(s, ast.Raise) for s in st.body) and not st.orelse:
                t = self.try_truth(st.test, env)
                if t is True:
                    raise Raises("rejects the configuration: `if %s: raise %s`" % (norm_text(st.test)[:60], norm_text(st.body[0].exc)[:40] if st.body[0].exc is not None else ""), st, _exc_class(st.body[0]))
                return
            t = self.try_truth(st.test, env)
            if t is None:
                raise Undecided("cannot decide `%s`" % norm_text(st.test)[:60])
            self.block(st.body if t else st.orelse, env, yields)
            return
        if isinstance(st, ast.For):
            for item in self.iterate(self.ev(st.iter, env)):
                self.assign(st.target, item, env)
                self.block(st.body, env, yields)
            if st.orelse:
                self.block(st.orelse, env, yields)
            return
        if isinstance(st, ast.FunctionDef):
            is_gen = any(isinstance(n, (ast.Yield, ast.YieldFrom)) for n in ast.walk(st))
            env.set(st.name, Closure(st, env, is_gen))
            return
        if isinstance(st, ast.With):
            # context managers (torch.no_grad(), ...) do not change values
            self.block(st.body, env, yields)
            return
        if isinstance(st, ast.Raise):
            raise Raises("raises `%s`" % norm_text(st)[:70], st, _exc_class(st))
        raise Undecided("statement %s" % type(st).__name__)

    def _try(self, e, env):
        try:
            return self.ev(e, env)
        except Undecided:
            return None

    def _owner(self, env, name):
        e = env
        while e is not None:
            if name in e.vars:
                return e
            e = e.parent
        return env

    def assign(self, t, v, env):
        if isinstance(t, ast.Name):
            env.set(t.id, v)
        elif isinstance(t, (ast.Tuple, ast.List)):
            items = self.iterate(v)
            if len(items) != len(t.elts):
                raise Undecided("unpacking %d values into %d targets" % (len(items), len(t.elts)))
            for e, x in zip(t.elts, items):
                self.assign(e, x, env)
        elif isinstance(t, ast.Subscript) and isinstance(t.value, ast.Name) and isinstance(self._try(t.value, env), Sym) and self._feature_index(t.slice, env) is not None:
            base = self.ev(t.value, env)
            idx = self._feature_index(t.slice, env)
            if not (isinstance(base.term, tuple) and base.term and base.term[0] == "scatter"):
                raise Undecided("indexed store into a tensor that is not freshly allocated")
            if not isinstance(v, Sym):
                raise Undecided("indexed store of a non-tensor")
            pairs = tuple(p for p in base.term[1] if p[0] != idx.name) + ((idx.name, v.term),)
            owner = self._owner(env, t.value.id)
            owner.set(t.value.id, self.mk(("scatter", tuple(sorted(pairs)))))
        elif isinstance(t, ast.Subscript):
            base = self.ev(t.value, env)
            idx = self.ev(t.slice, env)
            if isinstance(base, list) and isinstance(idx, int):
                try:
                    base[idx] = v
                except IndexError:
                    raise Raises("IndexError: store at index %r into a list of length %d (`%s`)" % (idx, len(base), norm_text(t)[:50]), t)
            else:
                raise Undecided("store into %s" % norm_text(t)[:40])
        elif isinstance(t, ast.Attribute):
            base = self.ev(t.value, env)
            if isinstance(base, Obj):
                base.attrs[t.attr] = v
            else:
                raise Undecided("attribute store on %r" % (base,))
        else:
            raise Undecided("assignment target %s" % type(t).__name__)

    # -- helpers -------------------------------------------------------------------------
    def iterate(self, v):
        if isinstance(v, PIter):
            items, v.items = v.items, []
            return items
        if isinstance(v, (list, tuple)):
            return list(v)
        if isinstance(v, range):
            return list(v)
        if isinstance(v, Sym) and isinstance(v.term, tuple) and v.term[0] == "pair":
            return [Sym(v.term[1]), Sym(v.term[2])]
        raise Undecided("iteration over %r" % (v,))

    def try_truth(self, test, env):
        try:
            v = self.ev(test, env)
        except Undecided:
            return None
        if isinstance(v, (bool, int)) or v is None or isinstance(v, (list, tuple, str)):
            return bool(v)
        return None

    def binop(self, op, a, b):
        if isinstance(a, (int, float)) and isinstance(b, (int, float)) and not isinstance(a, bool):
            if isinstance(op, ast.Add):
                return a + b
            if isinstance(op, ast.Sub):
                return a - b
            if isinstance(op, ast.Mult):
                return a * b
            if isinstance(op, (ast.FloorDiv, ast.Mod, ast.Div)) and b == 0:
                raise Raises("ZeroDivisionError")
            if isinstance(op, ast.FloorDiv):
                return a // b
            if isinstance(op, ast.Mod):
                return a % b
            if isinstance(op, ast.Div):
                return a / b
            if isinstance(op, ast.Pow) and abs(b) <= 8:
                return a ** b
            if isinstance(op, ast.RShift) and isinstance(a, int) and isinstance(b, int):
                return a >> b
            if isinstance(op, ast.LShift) and isinstance(a, int) and isinstance(b, int) and b <= 16:
                return a << b
        if isinstance(op, ast.Mult) and ((isinstance(a, list) and isinstance(b, int)) or (isinstance(b, list) and isinstance(a, int))) and not isinstance(a, bool) and not isinstance(b, bool):
            lst, k = (a, b) if isinstance(a, list) else (b, a)
            if k > 64:
                raise Undecided("long list repetition")
            return list(lst) * k
        if isinstance(op, ast.Add):
            if isinstance(a, list) and isinstance(b, list):
                return a + b
            if isinstance(a, tuple) and isinstance(b, tuple):
                return a + b
            ta = a.term if isinstance(a, Sym) else a
            tb = b.term if isinstance(b, Sym) else b
            if isinstance(a, Sym) or isinstance(b, Sym):
                return Sym(mk_sum(ta, tb))
        if (isinstance(a, Sym) or isinstance(b, Sym)) and all(isinstance(v, (Sym, int, float)) for v in (a, b)):
            ta = a.term if isinstance(a, Sym) else a
            tb = b.term if isinstance(b, Sym) else b
            return Sym((type(op).__name__.lower(), ta, tb))
        raise Undecided("operator %s on %r, %r" % (type(op).__name__, a, b))

    # -- expressions ------------------------------------------------------------------------
    def ev(self, e, env):
        self.steps += 1
        if self.steps > 20000:
            raise Undecided("evaluation budget exceeded")
        if isinstance(e, ast.Constant):
            return e.value
        if isinstance(e, ast.Name):
            if e.id in ("True", "False", "None"):
                return {"True": True, "False": False, "None": None}[e.id]
            try:
                return env.get(e.id)
            except Undecided:
                # a (private) function of the module the evaluated method lives in
                fn = self._module_function(e.id)
                if fn is None:
                    raise
                return Closure(fn, Env(), any(isinstance(n, (ast.Yield, ast.YieldFrom)) for n in ast.walk(fn)))
        if isinstance(e, (ast.Tuple, ast.List)):
            out = []
            for x in e.elts:
                if isinstance(x, ast.Starred):
                    out.extend(self.iterate(self.ev(x.value, env)))
                else:
                    out.append(self.ev(x, env))
            return tuple(out) if isinstance(e, ast.Tuple) else out
        if isinstance(e, ast.Attribute):
            base = self.ev(e.value, env)
            return self.attr(base, e.attr, e)
        if isinstance(e, ast.Subscript):
            base = self.ev(e.value, env)
            return self.subscript(base, e.slice, env, e)
        if isinstance(e, ast.BinOp):
            return self.binop(e.op, self.ev(e.left, env), self.ev(e.right, env))
        if isinstance(e, ast.UnaryOp):
            v = self.ev(e.operand, env)
            if isinstance(e.op, ast.USub) and isinstance(v, (int, float)):
                return -v
            if isinstance(e.op, ast.Not):
                t = v if isinstance(v, (bool, int, list, tuple)) or v is None else None
                if t is None and not isinstance(v, (bool, int, list, tuple)):
                    raise Undecided("not of a symbolic value")
                return not v
            raise Undecided("unary operator")
        if isinstance(e, ast.Compare) and len(e.ops) == 1:
            a, b = self.ev(e.left, env), self.ev(e.comparators[0], env)
            op = e.ops[0]
            if isinstance(op, (ast.Eq, ast.NotEq)) and isinstance(a, (tuple, list)) and isinstance(b, (tuple, list)) and all(isinstance(x, int) for x in list(a) + list(b)):
                return (list(a) == list(b)) == isinstance(op, ast.Eq)
            if isinstance(op, (ast.Is, ast.IsNot)):
                same = a is b or (a is None and b is None)
                if a is None or b is None:
                    return same if isinstance(op, ast.Is) else not same
            if isinstance(a, (int, float)) and isinstance(b, (int, float)):
                return {ast.Eq: a == b, ast.NotEq: a != b, ast.Lt: a < b, ast.LtE: a <= b, ast.Gt: a > b, ast.GtE: a >= b}.get(type(op))
            raise Undecided("comparison of symbolic values")
        if isinstance(e, ast.BoolOp):
            vals = []
            for v in e.values:
                t = self.try_truth(v, env)
                if t is None:
                    raise Undecided("symbolic condition")
                vals.append(t)
            return all(vals) if isinstance(e.op, ast.And) else any(vals)
        if isinstance(e, ast.IfExp):
            t = self.try_truth(e.test, env)
            if t is None:
                raise Undecided("symbolic condition")
            return self.ev(e.body if t else e.orelse, env)
        if isinstance(e, ast.ListComp):
            return self.comp(e, env)
        if isinstance(e, ast.GeneratorExp):
            return PIter(self.comp(e, env))
        if isinstance(e, ast.Call):
            return self.call(e, env)
        if isinstance(e, ast.Slice):
            return slice(self.ev(e.lower, env) if e.lower else None, self.ev(e.upper, env) if e.upper else None, self.ev(e.step, env) if e.step else None)
        if isinstance(e, ast.Starred):
            raise Undecided("starred expression")
        raise Undecided("expression %s" % type(e).__name__)

    def comp(self, e, env):
        out = []

        def rec(gi, cenv):
            if gi == len(e.generators):
                out.append(self.ev(e.elt, cenv))
                return
            g = e.generators[gi]
            for item in self.iterate(self.ev(g.iter, cenv)):
                env2 = Env(cenv)
                self.assign(g.target, item, env2)
                ok = True
                for c in g.ifs:
                    t = self.try_truth(c, env2)
                    if t is None:
                        raise Undecided("symbolic comprehension filter")
                    ok = ok and t
                if ok:
                    rec(gi + 1, env2)

        rec(0, Env(env))
        return out

    def attr(self, base, name, node):
        if isinstance(base, Obj):
            if name in base.attrs:
                return base.attrs[name]
            if name in base.methods:
                return BoundMethod(base, base.methods[name])
            raise Undecided("attribute self.%s" % name)
        if isinstance(base, Stage):
            if name in ("inverse", "forward"):
                return Bound(base, "inv" if name == "inverse" else "fwd")
            raise Undecided("attribute %s of a stage" % name)
        if isinstance(base, Sym):
            if name == "shape":
                return ("shape-of", base.term)
            return ("method", base, name)
        if isinstance(base, list) and name in ("append", "extend", "children", "named_children", "parameters", "modules"):
            return ("listmethod", base, name)
        if isinstance(base, tuple) and base and base[0] == "size":
            return ("method", base, name)
        if isinstance(base, tuple) and base and base[0] == "module":
            return ("modfn", base[1] + "." + name)
        raise Undecided("attribute %s of %r" % (name, base))

    def subscript(self, base, sl, env, node):
        if isinstance(base, (list, tuple)) and not (base and base[0] in ("shape-of", "module", "method", "modfn", "listmethod")):
            idx = self.ev(sl, env)
            if isinstance(idx, (int, slice)):
                try:
                    r = base[idx]
                except IndexError:
                    raise Raises("IndexError: index %r into a sequence of length %d (`%s`)" % (idx, len(base), norm_text(node)[:50]), node)
                return list(r) if isinstance(idx, slice) and isinstance(base, list) else r
            raise Undecided("symbolic index into a list")
        if isinstance(base, tuple) and base and base[0] == "shape-of":
            idx = self.ev(sl, env)
            if idx == 0:
                return Sym(("dim0", base[1]))
            known = self.shapes.get(base[1])
            if known is not None:
                if isinstance(idx, slice) and idx.start == 1 and idx.stop is None and idx.step is None:
                    return tuple(known)
                if isinstance(idx, int) and 1 <= idx <= len(known):
                    return known[idx - 1]
            return ("shape-part", base[1], repr(idx))
        if isinstance(base, Sym):
            # x[:, lo:hi]
            if isinstance(sl, ast.Tuple) and len(sl.elts) == 2 and isinstance(sl.elts[0], ast.Slice) and sl.elts[0].lower is None and sl.elts[0].upper is None and sl.elts[0].step is None and isinstance(sl.elts[1], ast.Slice) and sl.elts[1].step is None:
                lo = self.ev(sl.elts[1].lower, env) if sl.elts[1].lower is not None else 0
                hi = self.ev(sl.elts[1].upper, env) if sl.elts[1].upper is not None else None
                lo = lo.term if isinstance(lo, Sym) else lo
                hi = hi.term if isinstance(hi, Sym) else hi
                return Sym(("slice", base.term, lo, hi))
            if isinstance(sl, ast.Slice) and sl.lower is None and sl.step is None and sl.upper is not None:
                k = self.ev(sl.upper, env)
                return Sym(("slice0", base.term, k.term if isinstance(k, Sym) else k))
            idx = self._feature_index(sl, env)
            if idx is not None:
                return self.mk(("gather", base.term, idx.name))
            raise Undecided("indexing %s" % norm_text(node)[:50])
        raise Undecided("subscript of %r" % (base,))

    def _feature_index(self, sl, env):
        """IDX for x[:, IDX] / x[:, IDX, ...] with IDX a symbolic index set"""
        if isinstance(sl, ast.Tuple) and len(sl.elts) in (2, 3) and isinstance(sl.elts[0], ast.Slice) and sl.elts[0].lower is None and sl.elts[0].upper is None:
            if len(sl.elts) == 3 and not (isinstance(sl.elts[2], ast.Constant) and sl.elts[2].value is Ellipsis):
                return None
            try:
                v = self.ev(sl.elts[1], env)
            except Undecided:
                return None
            if isinstance(v, Index):
                return v
        return None

    # -- calls -------------------------------------------------------------------------------
    def call(self, e, env):
        fn_text = norm_text(e.func)
        # module functions are looked up by their dotted text
        if fn_text in ("len", "range", "zip", "enumerate", "reversed", "list", "tuple", "iter", "islice", "itertools.islice", "chain", "itertools.chain", "repeat", "itertools.repeat"):
            args = [self.ev(a, env) for a in e.args]
            if fn_text == "len":
                if isinstance(args[0], PIter):
                    raise Raises("TypeError: len() of an iterator")
                if isinstance(args[0], (list, tuple)):
                    return len(args[0])
                raise Undecided("len of a symbolic value")
            if fn_text == "range":
                if all(isinstance(a, int) for a in args):
                    return list(range(*args))
                raise Undecided("symbolic range")
            if fn_text == "zip":
                return PIter(zip(*[self.iterate(a) for a in args]))
            if fn_text == "enumerate":
                return PIter(enumerate(self.iterate(args[0])))
            if fn_text == "reversed":
                if isinstance(args[0], PIter):
                    raise Raises("TypeError: reversed() of an iterator")
                return PIter(reversed(self.iterate(args[0])))
            if fn_text == "iter":
                return PIter(self.iterate(args[0])) if args else PIter([])
            if fn_text in ("islice", "itertools.islice") and 2 <= len(args) <= 4 and all(a is None or isinstance(a, int) for a in args[1:]):
                items = list(self.iterate(args[0]))
                sl = slice(*args[1:]) if len(args) > 2 else slice(args[1])
                return PIter(items[sl])
            if fn_text in ("chain", "itertools.chain"):
                out = []
                for a in args:
                    out.extend(self.iterate(a))
                return PIter(out)
            if fn_text in ("repeat", "itertools.repeat") and len(args) == 2 and isinstance(args[1], int):
                return PIter([args[0]] * args[1])
            if fn_text == "list":
                return list(self.iterate(args[0])) if args else []
            if fn_text == "tuple":
                return tuple(self.iterate(args[0])) if args else ()
        kw = {k.arg: self.ev(k.value, env) for k in e.keywords if k.arg is not None}
        if fn_text in ("round", "abs", "min", "max", "math.ceil", "np.ceil", "math.floor", "np.floor", "float") and e.args:
            vals = [self.ev(a, env) for a in e.args]
            if all(isinstance(v, (int, float)) and not isinstance(v, bool) for v in vals):
                import math

                name = fn_text.split(".")[-1]
                if name in ("min", "max"):
                    return min(vals) if name == "min" else max(vals)
                if len(vals) == 1:
                    return {"round": round, "abs": abs, "ceil": math.ceil, "floor": math.floor, "float": float}[name](vals[0])
            raise Undecided("%s of a symbolic value" % fn_text)
        if fn_text.split(".")[-1] == "merge_leading_dims" and e.args:
            a = self.ev(e.args[0], env)
            nd = kw.get("num_dims", self.ev(e.args[1], env) if len(e.args) > 1 else None)
            if isinstance(a, Sym) and nd == 2:
                return Sym(("merge", a.term))
            if nd == 1 or a is None:
                return a  # one leading dimension: nothing to merge
            raise Undecided("merge_leading_dims")
        if fn_text.split(".")[-1] == "split_leading_dim" and e.args:
            a = self.ev(e.args[0], env)
            shp = kw.get("shape", self.ev(e.args[1], env) if len(e.args) > 1 else None)
            if isinstance(a, Sym) and isinstance(shp, (list, tuple)) and len(shp) == 2:
                return Sym(("split", a.term, tuple(x.term if isinstance(x, Sym) else x for x in shp)))
            raise Undecided("split_leading_dim")
        if fn_text in ("torch.zeros",):
            # a log-det accumulator started from zeros (its dtype / device are C19's business)
            for a in e.args:
                self._try(a, env)
            return Sym(("zeros",))
        if fn_text in ("torch.as_tensor", "torch.tensor") and e.args:
            a = self.ev(e.args[0], env)
            if isinstance(a, Sym):
                return a  # already a tensor
            raise Undecided("%s of a non-tensor" % fn_text)
        if fn_text in ("sum", "math.fsum") and e.args and not e.keywords:
            items = list(self.iterate(self.ev(e.args[0], env)))
            acc = self.ev(e.args[1], env) if len(e.args) > 1 else 0
            for it in items:
                acc = self.binop(ast.Add(), acc, it)
            return acc
        if fn_text in ("any", "all") and len(e.args) == 1 and not e.keywords:
            items = list(self.iterate(self.ev(e.args[0], env)))
            if all(isinstance(v, (bool, int)) or v is None for v in items):
                return any(items) if fn_text == "any" else all(items)
            raise Undecided("%s of symbolic values" % fn_text)
        if fn_text in ("math.prod", "np.prod") and len(e.args) == 1 and not e.keywords:
            items = list(self.iterate(self.ev(e.args[0], env)))
            if all(isinstance(v, int) and not isinstance(v, bool) for v in items):
                r = 1
                for v in items:
                    r *= v
                return r
            raise Undecided("prod of symbolic values")
        if fn_text == "divmod" and len(e.args) == 2:
            a, b = self.ev(e.args[0], env), self.ev(e.args[1], env)
            if isinstance(a, int) and isinstance(b, int):
                if b == 0:
                    raise Raises("ZeroDivisionError")
                return divmod(a, b)
            raise Undecided("divmod of symbolic values")
        if fn_text == "int" and len(e.args) == 1:
            a = self.ev(e.args[0], env)
            if isinstance(a, (int, float)):
                return int(a)
            raise Undecided("int of a symbolic value")
        if fn_text == "torch.Size" and len(e.args) == 1:
            a = self.ev(e.args[0], env)
            if isinstance(a, (tuple, list)) and all(isinstance(x, int) for x in a):
                return ("size", tuple(a))
            raise Undecided("torch.Size of a symbolic value")
        if fn_text == "torch.empty_like" and e.args:
            a = self.ev(e.args[0], env)
            if isinstance(a, Sym):
                return Sym(("scatter", ()))  # to be filled by indexed stores
        if fn_text in ("torch.zeros_like",) and e.args:
            a = self.ev(e.args[0], env)
            if isinstance(a, Sym):
                return Sym(("zeros_like", a.term))
        if fn_text in ("np.prod", "numpy.prod", "math.prod"):
            a = self.ev(e.args[0], env)
            if isinstance(a, (tuple, list)) and all(isinstance(x, int) for x in a):
                r = 1
                for x in a:
                    r *= x
                return r
            if isinstance(a, Shape):
                return Sym(("numel", a.name))
            raise Undecided("np.prod of %r" % (a,))
        if fn_text in ("np.cumsum", "numpy.cumsum"):
            items = self.iterate(self.ev(e.args[0], env))
            out, acc = [], 0
            for it in items:
                if isinstance(acc, (int, float)) and isinstance(it, (int, float)) and not isinstance(it, bool):
                    acc = acc + it  # plain numbers: a leading 0 stays the number 0
                else:
                    acc = mk_sum(acc, it.term if isinstance(it, Sym) else it)
                out.append(acc if isinstance(acc, (int, float)) else Sym(acc))
            return out
        if fn_text in ("np.insert", "numpy.insert"):
            lst, pos, val = [self.ev(a, env) for a in e.args[:3]]
            if isinstance(lst, list) and isinstance(pos, int):
                new = list(lst)
                new.insert(pos, val)
                return new
            raise Undecided("np.insert")
        if fn_text in ("torch.chunk",) or (isinstance(e.func, ast.Attribute) and e.func.attr == "chunk" and fn_text != "torch.chunk"):
            if fn_text == "torch.chunk":
                args = [self.ev(a, env) for a in e.args]
                x = args[0]
                rest = args[1:]
            else:
                x = self.ev(e.func.value, env)
                rest = [self.ev(a, env) for a in e.args]
            n = kw.get("chunks", rest[0] if rest else None)
            d = kw.get("dim", rest[1] if len(rest) > 1 else 0)
            if n != 2 or not isinstance(x, Sym):
                raise Undecided("chunk into %r parts" % (n,))
            d = d.term if isinstance(d, Sym) else d
            return (Sym(("ch", x.term, 0, d)), Sym(("ch", x.term, 1, d)))
        if fn_text == "torch.argsort" or (isinstance(e.func, ast.Attribute) and e.func.attr == "argsort" and fn_text != "torch.argsort"):
            v = self.ev(e.args[0], env) if fn_text == "torch.argsort" else self.ev(e.func.value, env)
            if isinstance(v, Index):
                # the inverse permutation of an index set that is a permutation of all positions
                return Index(("inv", v.name))
            raise Undecided("argsort of %r" % (v,))
        if fn_text in ("torch.cat", "torch.concat", "torch.concatenate"):
            parts = self.iterate(self.ev(e.args[0], env))
            d = kw.get("dim", self.ev(e.args[1], env) if len(e.args) > 1 else 0)
            d = d.term if isinstance(d, Sym) else d
            if parts and all(isinstance(x, Index) for x in parts):
                # the concatenation of index buffers: a (composite) index set, positions in the order written
                return Index(("cat",) + tuple(x.name for x in parts))
            if not all(isinstance(x, Sym) for x in parts):
                raise Undecided("cat of non-tensors")
            terms = tuple(x.term for x in parts if x.term != ("empty",))
            if len(terms) == 1:
                return Sym(terms[0])
            if not terms:
                return Sym(("empty",))
            if terms and all(isinstance(t, tuple) and t[0] in ("flat", "slice") for t in terms) and d in (-1, 1):
                d = "last"  # two-dimensional operands: the only non-batch axis
            return Sym(("cat", terms, d))
        if fn_text == "torch.flatten":
            x = self.ev(e.args[0], env)
            s = kw.get("start_dim", self.ev(e.args[1], env) if len(e.args) > 1 else 0)
            if isinstance(x, Sym) and s == 1:
                return Sym(("flat", x.term))
            raise Undecided("flatten")
        if fn_text in ("torchutils.merge_leading_dims", "merge_leading_dims") and len(e.args) == 2:
            x = self.ev(e.args[0], env)
            k = self.ev(e.args[1], env)
            if k == 1 or x is None:
                return x  # one leading dimension: nothing to merge
            raise Undecided("merge_leading_dims with %r dimensions" % (k,))
        if fn_text in ("super().__init__",):
            return None
        if fn_text in ("nn.ModuleList", "torch.nn.ModuleList"):
            return MList(self.iterate(self.ev(e.args[0], env))) if e.args else MList()
        if fn_text == "isinstance" and len(e.args) == 2 and not e.keywords:
            v = self.ev(e.args[0], env)
            alts = e.args[1].elts if isinstance(e.args[1], ast.Tuple) else [e.args[1]]
            out = False
            for a in alts:
                t = norm_text(a)
                if t in ("nn.ModuleList", "torch.nn.ModuleList"):
                    out = out or isinstance(v, MList)
                elif t == "list":
                    out = out or isinstance(v, list)
                elif t == "tuple":
                    out = out or isinstance(v, tuple)
                elif t in ("nn.Module", "torch.nn.Module"):
                    if isinstance(v, (MList, Stage, Obj)):
                        out = True
                    elif not (v is None or isinstance(v, (int, float, str, list, tuple, Sym))):
                        raise Undecided("isinstance(%r, %s)" % (v, t))
                elif getattr(self, "classes", None) and t in self.classes:
                    # a wrapper class of the repository the rule supplied: an object built from it is
                    # one, an uninterpreted stage stands for a leaf transform and is not
                    if isinstance(v, Obj) and getattr(v, "cls_name", None) is not None:
                        out = out or v.cls_name == t
                    elif not (v is None or isinstance(v, (int, float, str, list, tuple, Sym, Stage))):
                        raise Undecided("isinstance(%r, %s)" % (v, t))
                elif t == "Transform":
                    if isinstance(v, Obj) and getattr(v, "cls_name", None) is not None:
                        out = True
                    elif isinstance(v, Stage):
                        out = True
                    elif not (v is None or isinstance(v, (int, float, str, list, tuple, Sym))):
                        raise Undecided("isinstance(%r, %s)" % (v, t))
                elif t in ("Iterable", "collections.abc.Iterable", "abc.Iterable", "typing.Iterable", "Sequence", "collections.abc.Sequence", "typing.Sequence", "Iterator", "collections.abc.Iterator"):
                    if isinstance(v, (list, tuple, range)):
                        out = True
                    elif isinstance(v, PIter):
                        out = out or t.split(".")[-1] != "Sequence"
                    elif not (v is None or isinstance(v, (int, float, Stage, Sym))):
                        raise Undecided("isinstance(%r, %s)" % (v, t))
                elif t in ("int", "float", "str", "bool"):
                    if isinstance(v, (Sym, Shape)):
                        raise Undecided("isinstance(%r, %s)" % (v, t))
                    out = out or isinstance(v, {"int": int, "float": float, "str": str, "bool": bool}[t])
                else:
                    raise Undecided("isinstance(.., %s)" % t)
            return out
        if fn_text in ("check.is_positive_int", "typechecks.is_positive_int", "is_positive_int", "check.is_nonnegative_int", "typechecks.is_nonnegative_int", "check.is_int", "check.is_bool") and len(e.args) == 1:
            # the predicates of nflows.utils.typechecks (their bodies are C20 UT-PRED's obligation)
            a = self.ev(e.args[0], env)
            if isinstance(a, bool):
                return fn_text.endswith("is_bool")
            if isinstance(a, int):
                return {"is_positive_int": a > 0, "is_nonnegative_int": a >= 0, "is_int": True, "is_bool": False}[fn_text.split(".")[-1]]
            if isinstance(a, (Sym, Stage, Shape)) or a is None or isinstance(a, (float, str, list, tuple)):
                return False
            raise Undecided("type predicate on %r" % (a,))
        if isinstance(e.func, ast.Attribute) and isinstance(e.func.value, ast.Name) and e.func.value.id not in ("torch", "np", "F", "nn", "math", "torchutils") and isinstance(self.self_obj, Obj) and e.func.attr in self.self_obj.methods and e.func.value.id[:1].isupper():
            # ClassName._helper(...): a static helper of the class
            try:
                env.get(e.func.value.id)
            except Undecided:
                node = self.self_obj.methods[e.func.attr]
                sargs = [self.ev(a, env) for a in e.args]
                return self._run_function(node, sargs, {k.arg: self.ev(k.value, env) for k in e.keywords if k.arg}, None)
        if getattr(self, "classes", None) and isinstance(e.func, ast.Name) and e.func.id in self.classes and "__init__" in self.classes[e.func.id]:
            try:
                env.get(e.func.id)
                shadowed = True
            except Undecided:
                shadowed = False
            if not shadowed:
                o = Obj({}, self.classes[e.func.id])
                o.cls_name = e.func.id
                cargs = [self.ev(a, env) for a in e.args]
                ckw = {k.arg: self.ev(k.value, env) for k in e.keywords if k.arg}
                self._run_function(self.classes[e.func.id]["__init__"], cargs, ckw, o)
                return o
        try:
            f = self.ev(e.func, env)
        except Undecided:
            # `module_alias.helper(..)`: a function of another repository module, imported by the
            # module the evaluated method lives in
            f = self._imported_function(e.func)
            if f is None:
                raise
        args = []
        for a in e.args:
            if isinstance(a, ast.Starred):
                v = self.ev(a.value, env)
                args.append(("star", v))
            else:
                args.append(self.ev(a, env))
        if isinstance(f, Closure):
            return self.call_closure(f, args)
        if isinstance(f, Obj) and "forward" in f.methods:
            # module(..) is module.forward(..)
            return self._run_function(f.methods["forward"], list(args), kw, f)
        if isinstance(f, BoundMethod):
            is_static = any((isinstance(d, ast.Name) and d.id == "staticmethod") for d in f.node.decorator_list)
            return self._run_function(f.node, list(args), kw, None if is_static else f.obj)
        if isinstance(f, SymFn):
            targs = tuple(a.term if isinstance(a, Sym) else a for a in args) + tuple((k, v.term if isinstance(v, Sym) else v) for k, v in sorted(kw.items()))
            t = ("call", f.name) + targs
            self.symfn_calls.append(t)
            if f.n_out == 2:
                return (self.mk(("item", t, 0)), self.mk(("item", t, 1)))
            return self.mk(t)
        if isinstance(f, tuple) and f and f[0] == "method" and isinstance(f[1], tuple) and f[1] and f[1][0] == "size" and f[2] == "numel":
            r = 1
            for x in f[1][1]:
                r *= x
            return r
        if isinstance(f, (Stage, Bound)):
            st = f if isinstance(f, Stage) else f.stage
            direction = "fwd" if isinstance(f, Stage) else f.direction
            if not args or not isinstance(args[0], Sym):
                raise Undecided("stage applied to a non-tensor")
            ctx = kw.get("context", args[1] if len(args) > 1 else None)
            ctxt = ctx.term if isinstance(ctx, Sym) else ctx
            return (self.mk(("out", st.name, direction, args[0].term, ctxt)), self.mk(("ld", st.name, direction, args[0].term, ctxt)))
        if isinstance(f, tuple) and f and f[0] == "listmethod":
            _, lst, name = f
            if name == "append":
                lst.append(args[0])
            elif name == "extend":
                lst.extend(self.iterate(args[0]))
            elif name == "children":
                # nn.Module.children() of an nn.ModuleList: the sub-modules WITHOUT repetitions (torch
                # de-duplicates by identity) -- a part used twice appears once
                seen, out = set(), []
                for it in lst:
                    if id(it) not in seen:
                        seen.add(id(it))
                        out.append(it)
                return PIter(out)
            else:
                raise Undecided("ModuleList.%s()" % name)
            return None
        if isinstance(f, tuple) and f and f[0] == "method":
            _, x, name = f
            if name in ("new_empty", "new_zeros", "new_ones") and any(a == 0 for a in args):
                return Sym(("empty",))
            if name in ("reshape", "view", "flatten") and x.term == ("empty",):
                return x
            if name in ("reshape", "view"):
                # x.reshape(y.shape): the shape of another tensor -- no change when it is x's own
                if len(args) == 1 and isinstance(args[0], tuple) and args[0] and args[0][0] == "shape-of":
                    if args[0][1] == x.term:
                        return x
                    return Sym(("view", x.term, ("shape-of", args[0][1])))
                # a batch-shaped value reshaped to the leading part of the inputs' shape
                if len(args) == 1 and isinstance(args[0], tuple) and args[0] and args[0][0] == "shape-part" and args[0][2] in (repr(slice(None, 1, None)),):
                    return x
                if len(args) == 2 and isinstance(args[0], Sym) and args[0].term[0] == "dim0" and args[1] == -1:
                    return Sym(x.term if isinstance(x.term, tuple) and x.term[0] == "flat" else ("flat", x.term))
                if len(args) == 2 and args[0] == -1 and isinstance(args[1], tuple) and args[1][0] == "star" and isinstance(args[1][1], Shape):
                    return Sym(("view", x.term, args[1][1].name))
                if len(args) == 2 and args[0] == -1 and isinstance(args[1], tuple) and args[1][0] == "star" and isinstance(args[1][1], (tuple, list)) and all(isinstance(d, int) for d in args[1][1]):
                    return Sym(("view", x.term, tuple(args[1][1])))
                if args and args[0] == -1 and all(isinstance(d, int) for d in args[1:]) and len(args) > 1:
                    return Sym(("view", x.term, tuple(args[1:])))
                raise Undecided("%s%r" % (name, tuple(args)))
            if name == "flatten" and args == [1]:
                return Sym(("flat", x.term))
            if name == "new_zeros":
                return Sym(("zeros",))
            if name in ("contiguous", "clone"):
                return x
            if name == "dim":
                raise Undecided("rank of a symbolic tensor")
            raise Undecided("tensor method %s" % name)
        raise Undecided("call %s" % fn_text[:60])
