"""Small syntax-tree utilities shared by the structural rules: normal forms and guards."""

import ast

from .model import norm_text


# ---------------------------------------------------------------------------------------
# signed-sum normal form
# ---------------------------------------------------------------------------------------


def signed_terms(expr, sign=1):
    """Flatten +, -, unary - (and multiplication by a literal -1) into [(sign, leaf)]."""
    if isinstance(expr, ast.BinOp) and isinstance(expr.op, ast.Add):
        return signed_terms(expr.left, sign) + signed_terms(expr.right, sign)
    if isinstance(expr, ast.BinOp) and isinstance(expr.op, ast.Sub):
        return signed_terms(expr.left, sign) + signed_terms(expr.right, -sign)
    if isinstance(expr, ast.UnaryOp) and isinstance(expr.op, ast.USub):
        return signed_terms(expr.operand, -sign)
    if isinstance(expr, ast.UnaryOp) and isinstance(expr.op, ast.UAdd):
        return signed_terms(expr.operand, sign)
    if isinstance(expr, ast.BinOp) and isinstance(expr.op, ast.Mult):
        for a, b in ((expr.left, expr.right), (expr.right, expr.left)):
            v = const_number(a)
            if v is not None and v in (-1, -1.0):
                return signed_terms(b, -sign)
            if v is not None and v in (1, 1.0):
                return signed_terms(b, sign)
    if isinstance(expr, ast.Constant) and isinstance(expr.value, (int, float)) and expr.value == 0 and not isinstance(expr.value, bool):
        return []
    return [(sign, expr)]


def const_number(e):
    if isinstance(e, ast.Constant) and isinstance(e.value, (int, float)) and not isinstance(e.value, bool):
        return e.value
    if isinstance(e, ast.UnaryOp) and isinstance(e.op, ast.USub):
        v = const_number(e.operand)
        return -v if v is not None else None
    return None


def product_factors(expr, sign=1):
    """Flatten a product into (sign, [factors]); a leading unary minus flips the sign."""
    if isinstance(expr, ast.UnaryOp) and isinstance(expr.op, ast.USub):
        return product_factors(expr.operand, -sign)
    if isinstance(expr, ast.BinOp) and isinstance(expr.op, ast.Mult):
        s1, f1 = product_factors(expr.left, sign)
        s2, f2 = product_factors(expr.right, 1)
        return s1 * s2, f1 + f2
    v = const_number(expr)
    if v is not None and v < 0:
        return -sign, [ast.Constant(value=-v)]
    return sign, [expr]


# ---------------------------------------------------------------------------------------
# conditions
# ---------------------------------------------------------------------------------------

_NEG = {ast.Lt: ast.GtE, ast.LtE: ast.Gt, ast.Gt: ast.LtE, ast.GtE: ast.Lt, ast.Eq: ast.NotEq, ast.NotEq: ast.Eq, ast.Is: ast.IsNot, ast.IsNot: ast.Is, ast.In: ast.NotIn, ast.NotIn: ast.In}
_SWAP = {ast.Lt: ast.Gt, ast.LtE: ast.GtE, ast.Gt: ast.Lt, ast.GtE: ast.LtE, ast.Eq: ast.Eq, ast.NotEq: ast.NotEq}
_SYM = {ast.Lt: "<", ast.LtE: "<=", ast.Gt: ">", ast.GtE: ">=", ast.Eq: "==", ast.NotEq: "!=", ast.Is: "is", ast.IsNot: "is not", ast.In: "in", ast.NotIn: "not in"}


def cond_atoms(test, pol=True):
    """Conjunctive atoms implied by (test == pol): set of canonical atom strings.

    `a and b` true -> atoms of a and of b; `a or b` false -> negated atoms of both; comparison
    atoms are canonicalised (operands ordered textually, negation pushed into the operator).
    A disjunction that is true contributes one opaque atom.
    """
    out = set()
    _atoms(test, pol, out)
    return out


def _atoms(t, pol, out):
    if isinstance(t, ast.UnaryOp) and isinstance(t.op, ast.Not):
        return _atoms(t.operand, not pol, out)
    if isinstance(t, ast.BoolOp):
        if (isinstance(t.op, ast.And) and pol) or (isinstance(t.op, ast.Or) and not pol):
            for v in t.values:
                _atoms(v, pol, out)
            return
        parts = []
        for v in t.values:
            s = set()
            _atoms(v, pol, s)
            parts.append("&".join(sorted(s)))
        out.add("(" + " | ".join(sorted(parts)) + ")")
        return
    out.add(canon_atom(t, pol))


def canon_atom(t, pol=True):
    if isinstance(t, ast.Compare) and len(t.ops) == 1:
        op = type(t.ops[0])
        l, r = norm_text(t.left), norm_text(t.comparators[0])
        if not pol:
            op = _NEG.get(op, None)
            if op is None:
                return "not(" + norm_text(t) + ")"
        if op in _SWAP and l > r:
            l, r, op = r, l, _SWAP[op]
        return "%s %s %s" % (l, _SYM[op], r)
    s = norm_text(t)
    return s if pol else "not(" + s + ")"


def negate_atom(a):
    if a.startswith("not(") and a.endswith(")"):
        return a[4:-1]
    for sym, neg in (("<=", ">"), (">=", "<"), ("==", "!="), ("!=", "=="), (" is not ", " is "), ):
        pass
    parts = a.split(" ")
    for i, tok in enumerate(parts):
        if tok in ("<", "<=", ">", ">=", "==", "!="):
            neg = {"<": ">=", "<=": ">", ">": "<=", ">=": "<", "==": "!=", "!=": "=="}[tok]
            return " ".join(parts[:i] + [neg] + parts[i + 1 :])
    if " is not " in a:
        return a.replace(" is not ", " is ", 1)
    if " is " in a:
        return a.replace(" is ", " is not ", 1)
    return "not(" + a + ")"


# ---------------------------------------------------------------------------------------
# statements with path conditions (structured control flow, DESIGN 1.2)
# ---------------------------------------------------------------------------------------


def always_exits(stmts):
    """True if the block ends in raise/return on every path."""
    for st in stmts:
        if isinstance(st, (ast.Raise, ast.Return)):
            return True
        if isinstance(st, ast.If) and st.orelse and always_exits(st.body) and always_exits(st.orelse):
            return True
    return False


def walk_pc(stmts, pc=None, nograd=False):
    """Yield (stmt, pc, nograd) for every statement; pc = list of (test, polarity).

    `if c: raise/return` contributes (c, False) to everything after it in the same block.
    """
    pc = list(pc or [])
    for st in stmts:
        yield st, list(pc), nograd
        if isinstance(st, ast.If):
            yield from walk_pc(st.body, pc + [(st.test, True)], nograd)
            yield from walk_pc(st.orelse, pc + [(st.test, False)], nograd)
            if always_exits(st.body) and not always_exits(st.orelse):
                pc = pc + [(st.test, False)]
            elif st.orelse and always_exits(st.orelse) and not always_exits(st.body):
                pc = pc + [(st.test, True)]
        elif isinstance(st, (ast.For, ast.While)):
            yield from walk_pc(st.body, pc, nograd)
            yield from walk_pc(st.orelse, pc, nograd)
        elif isinstance(st, ast.With):
            ng = nograd or any("no_grad" in norm_text(i.context_expr) for i in st.items)
            yield from walk_pc(st.body, pc, ng)
        elif isinstance(st, (ast.Try,)):
            raise NotImplementedError("try")
        elif isinstance(st, ast.FunctionDef):
            yield from walk_pc(st.body, pc, nograd)


def pc_atoms(pc):
    out = set()
    for t, pol in pc:
        out |= cond_atoms(t, pol)
    return out


def names_in(node):
    return {n.id for n in ast.walk(node) if isinstance(n, ast.Name)}


def attr_chain(node):
    """'self.cache.weight' for an Attribute chain rooted at a Name, else None."""
    parts = []
    n = node
    while isinstance(n, ast.Attribute):
        parts.append(n.attr)
        n = n.value
    if isinstance(n, ast.Name):
        parts.append(n.id)
        return ".".join(reversed(parts))
    return None


def calls_in(node):
    return [n for n in ast.walk(node) if isinstance(n, ast.Call)]


def single_assignments(fnode):
    """name -> list of (stmt, value) for plain `name = value` assignments in the function."""
    out = {}
    for n in ast.walk(fnode):
        if isinstance(n, ast.Assign):
            for t in n.targets:
                if isinstance(t, ast.Name):
                    out.setdefault(t.id, []).append((n, n.value))
                elif isinstance(t, (ast.Tuple, ast.List)):
                    for i, e in enumerate(t.elts):
                        if isinstance(e, ast.Name):
                            out.setdefault(e.id, []).append((n, ("component", i, n.value)))
        elif isinstance(n, ast.AugAssign) and isinstance(n.target, ast.Name):
            out.setdefault(n.target.id, []).append((n, ("aug", n.op, n.value)))
    return out


def as_reduction(e, names=("sum",)):
    """(name, reduced expression, dim node or None) for torch.sum(x, dim=d) / torch.sum(x, d) /
    x.sum(d) / x.sum(dim=d) (any reduction in `names`); None otherwise."""
    if not (isinstance(e, ast.Call) and isinstance(e.func, ast.Attribute) and e.func.attr in names):
        return None
    recv = e.func.value
    is_mod = isinstance(recv, ast.Name) and recv.id in ("torch", "np", "F", "torchutils")
    if is_mod:
        if not e.args:
            return None
        inner, rest = e.args[0], list(e.args[1:])
    else:
        inner, rest = recv, list(e.args)
    dim = next((k.value for k in e.keywords if k.arg in ("dim", "axis")), rest[0] if rest else None)
    return e.func.attr, inner, dim


# ---------------------------------------------------------------------------------------
# closed integer formulas:  decide  f(n) == spec(n)  by exhaustive evaluation on a range
# ---------------------------------------------------------------------------------------


class _NoEval(Exception):
    pass


def _int_eval(e, env):
    """Evaluate a closed arithmetic expression over Python ints (the checker's own evaluator: no
    code of the repository is run).  Operations outside the table raise _NoEval."""
    import math

    if isinstance(e, ast.Constant):
        if isinstance(e.value, (int, float)) and not isinstance(e.value, complex):
            return e.value
        raise _NoEval()
    if isinstance(e, ast.Name):
        if e.id in env:
            return env[e.id]
        raise _NoEval()
    if isinstance(e, ast.UnaryOp):
        v = _int_eval(e.operand, env)
        if isinstance(e.op, ast.USub):
            return -v
        if isinstance(e.op, ast.UAdd):
            return v
        if isinstance(e.op, ast.Not):
            return not v
        if isinstance(e.op, ast.Invert) and isinstance(v, int):
            return ~v
        raise _NoEval()
    if isinstance(e, ast.BinOp):
        a, b = _int_eval(e.left, env), _int_eval(e.right, env)
        try:
            if isinstance(e.op, ast.Add):
                return a + b
            if isinstance(e.op, ast.Sub):
                return a - b
            if isinstance(e.op, ast.Mult):
                return a * b
            if isinstance(e.op, ast.FloorDiv):
                return a // b
            if isinstance(e.op, ast.Mod):
                return a % b
            if isinstance(e.op, ast.Div):
                return a / b
            if isinstance(e.op, ast.Pow) and abs(b) <= 8:
                return a ** b
            if isinstance(e.op, ast.RShift):
                return a >> b
            if isinstance(e.op, ast.LShift) and b <= 16:
                return a << b
            if isinstance(e.op, ast.BitAnd):
                return a & b
            if isinstance(e.op, ast.BitOr):
                return a | b
        except (ZeroDivisionError, TypeError, ValueError, OverflowError):
            raise _NoEval()
        raise _NoEval()
    if isinstance(e, ast.IfExp):
        return _int_eval(e.body if _int_eval(e.test, env) else e.orelse, env)
    if isinstance(e, ast.Compare) and len(e.ops) == 1:
        a, b = _int_eval(e.left, env), _int_eval(e.comparators[0], env)
        op = type(e.ops[0])
        table = {ast.Eq: a == b, ast.NotEq: a != b, ast.Lt: a < b, ast.LtE: a <= b, ast.Gt: a > b, ast.GtE: a >= b}
        if op in table:
            return table[op]
        raise _NoEval()
    if isinstance(e, ast.BoolOp):
        vals = [_int_eval(v, env) for v in e.values]
        return all(vals) if isinstance(e.op, ast.And) else any(vals)
    if isinstance(e, ast.Call) and not e.keywords:
        f = " ".join(ast.unparse(e.func).split())
        args = [_int_eval(a, env) for a in e.args]
        try:
            if f == "int" and len(args) == 1:
                return int(args[0])
            if f == "round" and len(args) == 1:
                return round(args[0])
            if f in ("math.ceil", "np.ceil", "numpy.ceil") and len(args) == 1:
                return math.ceil(args[0])
            if f in ("math.floor", "np.floor", "numpy.floor") and len(args) == 1:
                return math.floor(args[0])
            if f == "abs" and len(args) == 1:
                return abs(args[0])
            if f in ("min", "max") and args:
                return min(args) if f == "min" else max(args)
            if f == "divmod" and len(args) == 2:
                return divmod(args[0], args[1])
            if f in ("np.mod", "numpy.mod", "math.fmod") and len(args) == 2:
                return args[0] % args[1]
            if f == "__component__" and len(args) == 2 and isinstance(args[0], tuple):
                return args[0][args[1]]
        except (ZeroDivisionError, TypeError, ValueError, OverflowError):
            raise _NoEval()
        raise _NoEval()
    if isinstance(e, ast.Subscript) and isinstance(e.slice, ast.Constant):
        v = _int_eval(e.value, env)
        if isinstance(v, tuple):
            return v[e.slice.value]
    raise _NoEval()


def int_formula_verdict(e, var, spec, lo=0, hi=96, conds=()):
    """True when expr(var=n) == spec(n) for every integer n in [lo, hi], (False, n, got, want)
    at the first difference, None when the expression is not a closed integer formula of `var`.
    `conds`: [(test expression, polarity)] of the path the expression is computed on; values of
    n for which a (closed) condition does not hold are not this path's business.
    (The formulas in question are piecewise linear with period <= 4; the range is ample.)"""
    names = {x.id for x in ast.walk(e) if isinstance(x, ast.Name)}
    free = {n for n in names if n not in (var, "int", "round", "math", "np", "numpy", "abs", "min", "max", "divmod", "__component__")}
    if free:
        return None
    for n in range(lo, hi + 1):
        on_path = True
        for test, pol in conds:
            try:
                if bool(_int_eval(test, {var: n})) != bool(pol):
                    on_path = False
                    break
            except _NoEval:
                pass  # a condition about something else
        if not on_path:
            continue
        try:
            got = _int_eval(e, {var: n})
        except _NoEval:
            return None
        want = spec(n)
        if isinstance(got, bool) or got != want or (isinstance(got, float) and not float(got).is_integer()):
            return (False, n, got, want)
    return True
