"""A small abstract interpreter over the repository's Python subset.

It walks function bodies in program order with an abstract environment, joins at control-flow
merges, iterates loops to a fixpoint and follows calls into repository code (context
sensitively: the callee is re-analysed for every distinct abstract argument tuple, memoised).
It never executes or imports repository code; values are *abstract*: "a tensor with this
annotation", "an object of this class", "the Python constant True".  What the annotation means
is decided by a pluggable `Domain` (ownership, taint, dtype provenance, ...).

Unsupported syntax (try / break / continue / global / async / match) raises
AnalysisIncomplete: the checks then exit 2 instead of guessing.
"""

import ast

from .astutil import attr_chain
from .model import (
    AnalysisIncomplete,
    ClassInfo,
    FuncInfo,
    ModuleInfo,
    PARAM,
    BUFFER,
    MODULE,
    MODULELIST,
    EXTMODULE,
    FACTORY,
    PLAIN,
    PROPERTY,
    METHOD,
    norm_text,
)
from . import tops

# --------------------------------------------------------------------------------------
# abstract values
# --------------------------------------------------------------------------------------


class AV:
    __slots__ = ("kind", "data", "ann", "maybe_none", "_key")

    def __init__(self, kind, data=None, ann=frozenset(), maybe_none=False):
        self.kind = kind
        self.data = data
        self.ann = ann
        self.maybe_none = maybe_none
        self._key = None

    def key(self):
        if self._key is None:
            self._key = (self.kind, _k(self.data), self.ann, self.maybe_none)
        return self._key

    def __repr__(self):
        if self.kind == "const":
            return "const(%r)" % (self.data,)
        if self.kind == "tuple":
            return "(%s)" % ", ".join(map(repr, self.data))
        if self.kind == "obj":
            return "obj(%s)" % ",".join("%s@%s" % (c.name, ".".join(p)) for c, p in self.data)
        a = "{%s}" % ",".join(sorted(map(str, self.ann))) if self.ann else ""
        return "%s%s%s" % (self.kind, a, "?" if self.maybe_none else "")

    def with_ann(self, ann):
        return AV(self.kind, self.data, ann, self.maybe_none)

    @property
    def is_tensor(self):
        return self.kind == "tensor"

    @property
    def is_numberlike(self):
        return self.kind == "num" or (self.kind == "const" and isinstance(self.data, (int, float, bool)) )


E = frozenset()


def _k(x):
    if isinstance(x, AV):
        return x.key()
    if isinstance(x, (tuple, list)):
        return tuple(_k(y) for y in x)
    if isinstance(x, dict):
        return tuple(sorted((repr(a), _k(b)) for a, b in x.items()))
    if x is None or isinstance(x, (str, int, float, bool)):
        return (type(x).__name__, x)
    return id(x)


def T(ann=E):
    return AV("tensor", None, ann)


def NUM(ann=E):
    return AV("num", None, ann)


def CONST(v):
    return AV("const", v)


NONE = CONST(None)


def TOP(ann=E):
    return AV("top", None, ann)


def TUP(items):
    return AV("tuple", list(items))


def LST(items=None, elem=None):
    return AV("list", (list(items) if items is not None else None, elem))


def DCT(d=None):
    return AV("dict", d)


def FUNC(fi, bound_self=None, env=None):
    return AV("func", ((fi, bound_self, env),))


def OBJ(cls, path=()):
    return AV("obj", ((cls, tuple(path)),))


def EXT(dotted):
    return AV("ext", dotted)


def NET(contract, label):
    return AV("net", (contract, label))


class Env:
    __slots__ = ("vars", "parent")

    def __init__(self, parent=None):
        self.vars = {}
        self.parent = parent

    def get(self, name):
        e = self
        while e is not None:
            if name in e.vars:
                return e.vars[name]
            e = e.parent
        return None

    def set(self, name, val):
        self.vars[name] = val

    def copy(self):
        e = Env(self.parent)
        e.vars = dict(self.vars)
        return e


class Frame:
    def __init__(self, func, self_av, call_node, caller):
        self.func = func
        self.self_av = self_av
        self.call_node = call_node
        self.caller = caller
        self.pc = []  # [(test_node, polarity)]
        self.returns = []
        self.yields = []
        self.nograd = 0
        self.nograd_nodes = []

    def stack(self):
        out = []
        f = self
        while f is not None:
            out.append(f)
            f = f.caller
        return list(reversed(out))

    def pc_all(self):
        out = []
        for f in self.stack():
            out.extend(f.pc)
        return out

    def in_nograd(self):
        return any(f.nograd > 0 for f in self.stack())

    def nograd_site(self):
        """(frame, with-node) of the innermost enclosing `with torch.no_grad()`."""
        for f in reversed(self.stack()):
            if f.nograd_nodes:
                return f, f.nograd_nodes[-1]
        return None


# (class name, attribute) -> contract of the object stored there when it is a constructor
# argument / factory result whose class the analysis cannot see.
CONTRACTS = {
    ("Flow", "_transform"): "transform",
    ("Flow", "_distribution"): "distribution",
    ("Flow", "_embedding_net"): "net",
    ("InverseTransform", "_transform"): "transform",
    ("CompositeTransform", "_transforms"): "transform",
    ("MultiscaleCompositeTransform", "_transforms"): "transform",
    ("CouplingTransform", "unconditional_transform"): "transform",
    ("CouplingTransform", "transform_net"): "net",
    ("AutoregressiveTransform", "autoregressive_net"): "net",
    ("ConditionalDiagonalNormal", "_context_encoder"): "net",
    ("ConditionalIndependentBernoulli", "_context_encoder"): "net",
    ("MonotonicNormalizer", "integrand_net"): "net",
}


class Domain:
    """Default domain: annotations are label sets, unknown operations propagate the union."""

    name = "base"

    def join_ann(self, a, b):
        return a | b

    # sources
    def arg(self, func, pname, idx, default):
        return T()

    def state(self, interp, objav, path, attrinfo, node):
        return T()

    def net_result(self, interp, netav, method, args, kwargs, node):
        return T()

    def ext_module_result(self, interp, dotted, path, args, kwargs, node):
        return T()

    def ctor(self, interp, op, args, kwargs, node):
        return T()

    # operations: return AV or None for the structural default
    def op(self, interp, op, info, recv, args, kwargs, node):
        return None

    def binop(self, interp, opnode, left, right, node):
        return None

    def compare(self, interp, left, right, node):
        return None

    def subscript(self, interp, base, index, node):
        return None

    # events
    def on_write(self, interp, how, target, value, node):
        pass

    def on_attr_store(self, interp, obj, attr, value, node):
        pass

    def on_container_mutation(self, interp, chain, how, node):
        """a store / mutating method on a plain container kept in an attribute (`self.x[k] = v`,
        `self.x.append(v)`, `.update`, `.clear` ...)"""
        pass

    def on_state_read(self, interp, cls, path, attr, node):
        pass

    def on_call(self, interp, callee, args, kwargs, result, node):
        pass

    def on_return(self, interp, frame, value, node):
        pass

    def on_branch(self, interp, test_av, node):
        pass

    def on_index_use(self, interp, index_av, node):
        pass

    def nonempty_loop(self, interp, frame, node):
        return False

    def shape_ann(self, ann):
        """Annotation carried by x.shape / x.size() / x.dim() (Python ints)."""
        return ann


def join(dom, a, b):
    if a is None or a.kind == "bottom":
        return b if b is not None else a
    if b is None or b.kind == "bottom":
        return a
    if a is b:
        return a
    mn = a.maybe_none or b.maybe_none
    if a.kind == "const" and a.data is None and b.kind == "const" and b.data is None:
        return a
    if a.kind == "const" and a.data is None:
        return AV(b.kind, b.data, dom.join_ann(b.ann, a.ann) if a.ann else b.ann, True)
    if b.kind == "const" and b.data is None:
        return AV(a.kind, a.data, dom.join_ann(a.ann, b.ann) if b.ann else a.ann, True)
    if a.kind == b.kind:
        k = a.kind
        if k == "const":
            if a.data == b.data and type(a.data) is type(b.data):
                return AV("const", a.data, E, mn)
            if isinstance(a.data, (int, float, bool)) and isinstance(b.data, (int, float, bool)):
                return AV("num", None, E, mn)
            return AV("top", None, E, mn)
        if k in ("tensor", "num", "top"):
            return AV(k, None, dom.join_ann(a.ann, b.ann), mn)
        if k == "tuple":
            if len(a.data) == len(b.data):
                return AV("tuple", [join(dom, x, y) for x, y in zip(a.data, b.data)], E, mn)
            return AV("top", None, E, mn)
        if k == "list":
            ai, ae = a.data
            bi, be = b.data
            if ai is not None and bi is not None and len(ai) == len(bi):
                return AV("list", ([join(dom, x, y) for x, y in zip(ai, bi)], None), E, mn)
            return AV("list", (None, join(dom, list_elem(dom, a), list_elem(dom, b))), E, mn)
        if k == "dict":
            if a.data is None or b.data is None:
                return AV("dict", None, E, mn)
            d = {}
            for kk in set(a.data) | set(b.data):
                d[kk] = join(dom, a.data.get(kk), b.data.get(kk))
            # keys present on one side only are "maybe present"
            return AV("dict", d, frozenset(set(a.data) ^ set(b.data)) | a.ann | b.ann, mn)
        if k in ("func", "obj"):
            seen = []
            for x in tuple(a.data) + tuple(b.data):
                if not any(x[0] is y[0] and x[1:] == y[1:] for y in seen):
                    seen.append(x)
            return AV(k, tuple(seen), E, mn)
        if a.data == b.data:
            return AV(k, a.data, dom.join_ann(a.ann, b.ann), mn)
        return AV("top", None, dom.join_ann(a.ann, b.ann), mn)
    if a.kind in _CALLABLE_KINDS and b.kind in _CALLABLE_KINDS:
        alts = []
        for x in (a, b):
            for y in (x.data if x.kind == "union" else [x]):
                if not any(y.key() == z.key() for z in alts):
                    alts.append(y)
        return AV("union", alts, E, mn)
    # numeric tower: const-number < num < tensor
    if a.kind == "tensor" and b.is_numberlike:
        return AV("tensor", None, dom.join_ann(a.ann, b.ann), mn)
    if b.kind == "tensor" and a.is_numberlike:
        return AV("tensor", None, dom.join_ann(a.ann, b.ann), mn)
    if a.is_numberlike and b.is_numberlike:
        return AV("num", None, dom.join_ann(a.ann, b.ann), mn)
    return AV("top", None, dom.join_ann(all_ann(dom, a), all_ann(dom, b)), mn)


_CALLABLE_KINDS = {"func", "net", "netm", "extmod", "obj", "cls", "bound", "union", "ext", "builtin"}


def all_ann(dom, v):
    if v is None:
        return E
    if v.kind == "tuple":
        r = E
        for x in v.data:
            r = dom.join_ann(r, all_ann(dom, x))
        return r
    if v.kind == "list":
        items, elem = v.data
        r = E
        for x in items or []:
            r = dom.join_ann(r, all_ann(dom, x))
        if elem is not None:
            r = dom.join_ann(r, all_ann(dom, elem))
        return r
    return v.ann


def list_elem(dom, v):
    items, elem = v.data
    r = elem
    for x in items or []:
        r = join(dom, r, x)
    return r


def join_env(dom, a, b):
    """Join two environments that share the same parent."""
    out = Env(a.parent)
    for k in set(a.vars) | set(b.vars):
        x = a.vars.get(k)
        y = b.vars.get(k)
        if x is None or y is None:
            # defined on one path only
            out.vars[k] = x if y is None else y
        else:
            out.vars[k] = join(dom, x, y)
    return out


def env_equal(a, b):
    if set(a.vars) != set(b.vars):
        return False
    return all(a.vars[k].key() == b.vars[k].key() for k in a.vars)


class Unsupported(AnalysisIncomplete):
    pass


class _Terminate(Exception):
    """The current path cannot continue (a callee raises on every path)."""


BOTTOM = AV("bottom")


# --------------------------------------------------------------------------------------
# interpreter
# --------------------------------------------------------------------------------------


class Interp:
    MAX_DEPTH = 40

    def __init__(self, program, domain, assume=None, memo=True, unroll=0):
        self.p = program
        self.dom = domain
        self.use_memo = memo
        self.unroll = unroll  # > 0: execute loop bodies that many times in sequence (bug-finding mode)
        self.assume = dict(assume or {})  # normalised test text -> bool (mode scenarios)
        self.memo = {}
        self.active = []
        self.frame = None
        self.stats = {"calls": 0, "memo_hits": 0, "unknown_ops": {}, "unresolved_calls": {}, "functions": set()}
        self.events = []

    # -- entry ------------------------------------------------------------------------------
    def run_function(self, fi, self_av=None, args=None, kwargs=None, call_node=None):
        """Analyse `fi` with abstract arguments; returns the joined return value."""
        args = list(args or [])
        kwargs = dict(kwargs or {})
        key = (id(fi), self_av.key() if self_av is not None else None, tuple(a.key() for a in args), tuple(sorted((k, v.key()) for k, v in kwargs.items())), self._ctx_key())
        if self.use_memo and key in self.memo:
            self.stats["memo_hits"] += 1
            return self.memo[key]
        if any(k[0] == key[0] and k[1] == key[1] for k in self.active) or len(self.active) > self.MAX_DEPTH:
            # recursion: give up on precision, stay sound
            return TOP()
        self.active.append(key)
        self.stats["calls"] += 1
        self.stats["functions"].add(fi.fullname)
        caller = self.frame
        frame = Frame(fi, self_av, call_node, caller)
        self.frame = frame
        try:
            env = self._bind(fi, self_av, args, kwargs)
            if fi.is_lambda:
                v = self.eval(fi.node.body, env)
                frame.returns.append(v)
                self.dom.on_return(self, frame, v, fi.node.body)
                term = False
            else:
                _, term = self.exec_block(fi.node.body, env)
        finally:
            self.frame = caller
            self.active.pop()
        if frame.yields:
            res = LST(None, self._join_all(frame.yields))
        elif frame.returns:
            res = self._join_all(frame.returns)
        elif term:
            res = BOTTOM  # every path raises
        else:
            res = NONE
        self.memo[key] = res
        return res

    def _ctx_key(self):
        # the no_grad context changes the meaning of a call for some domains
        return bool(self.frame is not None and self.frame.in_nograd())

    def _join_all(self, vals):
        r = None
        for v in vals:
            r = join(self.dom, r, v)
        return r

    def _bind(self, fi, self_av, args, kwargs):
        closure = None
        env = Env(closure)
        a = fi.node.args
        pos = list(a.posonlyargs) + list(a.args)
        defaults = [None] * (len(pos) - len(a.defaults)) + list(a.defaults)
        names = [p.arg for p in pos]
        i0 = 0
        if fi.cls is not None and not fi.is_static and not fi.is_lambda and names:
            if fi.is_classmethod:
                env.set(names[0], AV("cls", fi.cls))
            else:
                env.set(names[0], self_av if self_av is not None else OBJ(fi.cls))
            i0 = 1
        rest = names[i0:]
        rdef = defaults[i0:]
        extra = []
        for i, nm in enumerate(rest):
            if i < len(args):
                env.set(nm, args[i])
            elif nm in kwargs:
                env.set(nm, kwargs.pop(nm))
            elif rdef[i] is not None:
                env.set(nm, self._eval_default(fi, rdef[i]))
            else:
                env.set(nm, TOP())
        if len(args) > len(rest):
            extra = args[len(rest):]
        if a.vararg is not None:
            env.set(a.vararg.arg, LST(extra, None))
        for p, d in zip(a.kwonlyargs, a.kw_defaults):
            if p.arg in kwargs:
                env.set(p.arg, kwargs.pop(p.arg))
            elif d is not None:
                env.set(p.arg, self._eval_default(fi, d))
            else:
                env.set(p.arg, TOP())
        if a.kwarg is not None:
            env.set(a.kwarg.arg, DCT(dict(kwargs)))
        return env

    def _eval_default(self, fi, node):
        if isinstance(node, ast.Constant):
            return CONST(node.value)
        try:
            return self.eval(node, Env())
        except AnalysisIncomplete:
            raise
        except Exception:
            return TOP()

    # -- statements -------------------------------------------------------------------------
    def exec_block(self, stmts, env):
        """Executes statements; returns (env, terminated)."""
        for st in stmts:
            env, term = self.exec_stmt(st, env)
            if term:
                return env, True
        return env, False

    def exec_stmt(self, st, env):
        m = getattr(self, "st_" + type(st).__name__, None)
        if m is None:
            raise Unsupported("unsupported statement %s at %s:%d" % (type(st).__name__, self.frame.func.module.relpath, st.lineno))
        try:
            return m(st, env)
        except _Terminate:
            return env, True

    def st_Pass(self, st, env):
        return env, False

    def st_Expr(self, st, env):
        self.eval(st.value, env)
        return env, False

    def st_Import(self, st, env):
        for al in st.names:
            env.set(al.asname or al.name.split(".")[0], EXT(al.name if al.asname else al.name.split(".")[0]))
        return env, False

    def st_ImportFrom(self, st, env):
        for al in st.names:
            env.set(al.asname or al.name, EXT("%s.%s" % (st.module, al.name)))
        return env, False

    def st_FunctionDef(self, st, env):
        fi = FuncInfo(st, self.frame.func.module, cls=None, outer=self.frame.func)
        env.set(st.name, FUNC(fi, self._self_of(env), env))
        return env, False

    def _self_of(self, env):
        return self.frame.self_av

    def st_Return(self, st, env):
        v = self.eval(st.value, env) if st.value is not None else NONE
        self.frame.returns.append(v)
        self.dom.on_return(self, self.frame, v, st)
        return env, True

    def st_Raise(self, st, env):
        if st.exc is not None:
            self.eval(st.exc, env)
        return env, True

    def st_Assert(self, st, env):
        t = self.eval(st.test, env)
        self.dom.on_branch(self, t, st)
        return env, False

    def st_Delete(self, st, env):
        return env, False

    def st_Global(self, st, env):
        raise Unsupported("global statement")

    def st_Assign(self, st, env):
        v = self.eval(st.value, env)
        for t in st.targets:
            self.assign(t, v, env, st)
        return env, False

    def st_AnnAssign(self, st, env):
        if st.value is not None:
            v = self.eval(st.value, env)
            self.assign(st.target, v, env, st)
        return env, False

    def st_AugAssign(self, st, env):
        cur = self.eval(_as_load(st.target), env)
        val = self.eval(st.value, env)
        res = self._binop(st.op, cur, val, st)
        t = st.target
        if isinstance(t, ast.Name):
            if cur.kind == "tensor" or cur.kind == "top":
                # in-place update of a tensor object
                self.dom.on_write(self, "augassign", cur, val, st)
                if getattr(self.dom, "inplace_keeps_receiver", False):
                    # x += y writes into x: the property tracked (its dtype) stays x's own
                    env.set(t.id, AV(cur.kind, None, cur.ann, False))
                elif getattr(self.dom, "value_semantics", False):
                    env.set(t.id, res if res.kind in ("tensor", "top") else AV(cur.kind, None, self.dom.join_ann(cur.ann, all_ann(self.dom, res)), False))
                else:
                    env.set(t.id, AV(cur.kind, None, cur.ann, False))
            else:
                env.set(t.id, res)
        elif isinstance(t, ast.Subscript):
            base = self.eval(t.value, env)
            idx = self.eval_index(t.slice, env)
            self.dom.on_index_use(self, idx, t)
            self.dom.on_write(self, "augassign-subscript", base, val, st)
            self._weak_update(t.value, base, val, env, st, idx)
        elif isinstance(t, ast.Attribute):
            obj = self.eval(t.value, env)
            if obj.kind == "obj":
                if cur.kind in ("tensor", "top"):
                    self.dom.on_write(self, "augassign", cur, val, st)
                else:
                    self.dom.on_attr_store(self, obj, t.attr, res, st)
            else:
                self.dom.on_write(self, "augassign-attr", obj, val, st)
        else:
            raise Unsupported("augassign target")
        return env, False

    def _weak_update(self, target_expr, base, val, env, st, idx=None):
        """x[...] = v: the value annotation of x absorbs v (for value-tracking domains)."""
        if getattr(self.dom, "value_semantics", False) and getattr(self.dom, "store_updates_value", True) and isinstance(target_expr, ast.Name) and base.kind in ("tensor", "top"):
            h2 = getattr(self.dom, "store_result", None)
            if h2 is not None:
                env.set(target_expr.id, AV(base.kind, None, frozenset(h2(self, base, idx, val, st)), base.maybe_none))
                return
            h = getattr(self.dom, "store_labels", None)
            add = h(self, base, idx, val, st) if h is not None else all_ann(self.dom, val)
            env.set(target_expr.id, AV(base.kind, None, self.dom.join_ann(base.ann, frozenset(add)), base.maybe_none))

    def assign(self, t, v, env, st):
        if isinstance(t, ast.Name):
            env.set(t.id, v)
        elif isinstance(t, (ast.Tuple, ast.List)):
            parts = self.unpack(v, len(t.elts), [isinstance(e, ast.Starred) for e in t.elts], st)
            for e, pv in zip(t.elts, parts):
                if isinstance(e, ast.Starred):
                    self.assign(e.value, pv, env, st)
                else:
                    self.assign(e, pv, env, st)
        elif isinstance(t, ast.Attribute):
            obj = self.eval(t.value, env)
            if obj.kind == "obj":
                self.dom.on_attr_store(self, obj, t.attr, v, st)
            elif obj.kind in ("tensor", "top") and t.attr == "data":
                self.dom.on_write(self, "data", obj, v, st)
            else:
                self.dom.on_write(self, "attr", obj, v, st)
        elif isinstance(t, ast.Subscript):
            base = self.eval(t.value, env)
            idx = self.eval_index(t.slice, env)
            self.dom.on_index_use(self, idx, t)
            if base.kind in ("tensor", "top"):
                self.dom.on_write(self, "subscript", base, v, st)
                self._weak_update(t.value, base, v, env, st, idx)
            elif base.kind == "list":
                items, elem = base.data
                newv = LST(None, join(self.dom, list_elem(self.dom, base), v))
                if isinstance(t.value, ast.Name):
                    env.set(t.value.id, newv)
                ch = attr_chain(t.value) if isinstance(t.value, ast.Attribute) else None
                if ch and ch.startswith("self."):
                    self.dom.on_container_mutation(self, ch, "item store", st)
            elif base.kind == "dict":
                ch = attr_chain(t.value) if isinstance(t.value, ast.Attribute) else None
                if ch and ch.startswith("self."):
                    self.dom.on_container_mutation(self, ch, "item store", st)
            else:
                self.dom.on_write(self, "subscript", base, v, st)
        elif isinstance(t, ast.Starred):
            self.assign(t.value, v, env, st)
        else:
            raise Unsupported("assignment target %s" % type(t).__name__)

    def unpack(self, v, n, starred, st):
        if v.kind == "tuple" and not any(starred):
            if len(v.data) == n:
                return list(v.data)
        if v.kind == "tuple" and any(starred):
            k = starred.index(True)
            before = v.data[:k]
            after = v.data[len(v.data) - (n - k - 1):] if n - k - 1 else []
            mid = v.data[k: len(v.data) - (n - k - 1)]
            return list(before) + [LST(mid, None)] + list(after)
        if v.kind == "list":
            items, elem = v.data
            if items is not None and len(items) == n and not any(starred):
                return list(items)
            e = list_elem(self.dom, v) or TOP()
            return [LST(None, e) if s else e for s in starred]
        if v.kind == "shape":
            return [AV("shape", None, v.ann) if s else NUM(v.ann) for s in starred]
        if v.kind == "tensor":
            # iterating a tensor yields views of it
            return [v for _ in range(n)]
        if v.kind == "num":
            return [LST(None, NUM(v.ann)) if s else NUM(v.ann) for s in starred]
        return [TOP(all_ann(self.dom, v)) for _ in range(n)]

    def st_If(self, st, env):
        pre = self._assumed(st.test) if self.assume else None
        if pre is not None and getattr(self.dom, "skip_assumed_tests", False):
            t = CONST(pre)  # the scenario decides this test: its operands are not even read
        else:
            t = self.eval(st.test, env)
        self.dom.on_branch(self, t, st)
        decided = _truth(t)
        if decided is None and self.assume:
            decided = pre
        frame = self.frame
        envs = []
        n0 = len(frame.pc)
        if decided is not False:
            e1 = env.copy()
            self._refine(st.test, True, e1)
            frame.pc.append((st.test, True))
            e1, term1 = self.exec_block(st.body, e1)
            del frame.pc[n0:]
            if not term1:
                envs.append(e1)
        else:
            term1 = True
        if decided is not True:
            e2 = env.copy()
            self._refine(st.test, False, e2)
            frame.pc.append((st.test, False))
            e2, term2 = self.exec_block(st.orelse, e2)
            del frame.pc[n0:]
            if not term2:
                envs.append(e2)
        else:
            term2 = True
        if not envs:
            return env, True
        if len(envs) == 1:
            # what follows is dominated by the surviving branch's condition
            if decided is None:
                # (an early exit: the condition stays on the pc until the enclosing block ends)
                if term1 and not term2:
                    frame.pc.append((st.test, False))
                elif term2 and not term1:
                    frame.pc.append((st.test, True))
            return envs[0], False
        return join_env(self.dom, envs[0], envs[1]), False

    def _assumed(self, test):
        if isinstance(test, ast.UnaryOp) and isinstance(test.op, ast.Not):
            v = self._assumed(test.operand)
            return None if v is None else (not v)
        if isinstance(test, ast.BoolOp):
            vals = [self._assumed(v) for v in test.values]
            if isinstance(test.op, ast.And):
                if any(v is False for v in vals):
                    return False
                return True if all(v is True for v in vals) else None
            if any(v is True for v in vals):
                return True
            return False if all(v is False for v in vals) else None
        return self.assume.get(norm_text(test))

    def _refine(self, test, polarity, env):
        """Refine None-ness of simple names from `x is None` / `x is not None` / `not x`."""
        if isinstance(test, ast.UnaryOp) and isinstance(test.op, ast.Not):
            return self._refine(test.operand, not polarity, env)
        if isinstance(test, ast.BoolOp):
            if isinstance(test.op, ast.And) and polarity:
                for v in test.values:
                    self._refine(v, True, env)
            elif isinstance(test.op, ast.Or) and not polarity:
                for v in test.values:
                    self._refine(v, False, env)
            return
        if isinstance(test, ast.Compare) and len(test.ops) == 1 and isinstance(test.left, ast.Name):
            c = test.comparators[0]
            if isinstance(c, ast.Constant) and c.value is None and isinstance(test.ops[0], (ast.Is, ast.IsNot)):
                is_none = isinstance(test.ops[0], ast.Is) == polarity
                cur = env.get(test.left.id)
                if cur is None:
                    return
                if is_none:
                    env.set(test.left.id, AV("const", None, cur.ann if cur.kind in ("tensor", "top", "num", "const") else E))
                elif cur.maybe_none:
                    env.set(test.left.id, AV(cur.kind, cur.data, cur.ann, False))

    def st_For(self, st, env):
        it = self.eval(st.iter, env)
        elem = self.iter_elem(it, st)
        if self.unroll:
            cur = env
            for _ in range(self.unroll):
                self.assign(st.target, elem, cur, st)
                cur, term = self.exec_block(st.body, cur)
                if term:
                    break
            return cur, False
        pre = env
        npc = len(self.frame.pc)
        cur = env.copy()
        nonempty = self.dom.nonempty_loop(self, self.frame, st) or _known_nonempty(it)
        first_out = None
        for i in range(6):
            body_env = cur.copy()
            self.assign(st.target, elem, body_env, st)
            body_env, term = self.exec_block(st.body, body_env)
            if first_out is None:
                first_out = body_env
            nxt = join_env(self.dom, cur, body_env) if not term else cur
            if env_equal(nxt, cur):
                cur = nxt
                break
            cur = nxt
        else:
            raise AnalysisIncomplete("loop did not stabilise at %s:%d" % (self.frame.func.module.relpath, st.lineno))
        if nonempty:
            # the state after >= 1 iteration: re-run body from the stable state
            body_env = cur.copy()
            self.assign(st.target, elem, body_env, st)
            body_env, term = self.exec_block(st.body, body_env)
            out = body_env
        else:
            out = cur
        del self.frame.pc[npc:]
        if st.orelse:
            out, _ = self.exec_block(st.orelse, out)
        return out, False

    def st_While(self, st, env):
        if self.unroll:
            cur = env
            for _ in range(self.unroll):
                self.eval(st.test, cur)
                cur, term = self.exec_block(st.body, cur)
                if term:
                    break
            return cur, False
        cur = env.copy()
        for i in range(6):
            t = self.eval(st.test, cur)
            self.dom.on_branch(self, t, st)
            body_env = cur.copy()
            body_env, term = self.exec_block(st.body, body_env)
            nxt = join_env(self.dom, cur, body_env) if not term else cur
            if env_equal(nxt, cur):
                cur = nxt
                break
            cur = nxt
        else:
            raise AnalysisIncomplete("while loop did not stabilise")
        return cur, False

    def st_With(self, st, env):
        nograd = False
        for item in st.items:
            ce = item.context_expr
            if isinstance(ce, ast.Call):
                r = self.resolve_static(ce.func, env)
                if r == ("ext", "torch.no_grad"):
                    nograd = True
                    continue
            v = self.eval(ce, env)
            if item.optional_vars is not None:
                self.assign(item.optional_vars, v, env, st)
        if nograd:
            self.frame.nograd += 1
            self.frame.nograd_nodes.append(st)
        try:
            env, term = self.exec_block(st.body, env)
        finally:
            if nograd:
                self.frame.nograd -= 1
                self.frame.nograd_nodes.pop()
        return env, term

    def st_Try(self, st, env):
        """try / except / else / finally, over-approximated: a handler may start after any prefix of the
        body, so it runs on the join of the state before and after the body; what follows sees the join of
        the normal exit (body, then else) and of every handler that falls through."""
        e0 = env.copy()
        eb, termb = self.exec_block(st.body, env.copy())
        outs = []
        if not termb:
            if st.orelse:
                eb, termb = self.exec_block(st.orelse, eb)
            if not termb:
                outs.append(eb)
        for h in st.handlers:
            eh = join_env(self.dom, e0.copy(), eb.copy()) if eb is not None else e0.copy()
            if h.name:
                eh.set(h.name, TOP())
            eh, termh = self.exec_block(h.body, eh)
            if not termh:
                outs.append(eh)
        if not outs:
            if st.finalbody:
                self.exec_block(st.finalbody, e0.copy())
            return env, True
        cur = outs[0]
        for o in outs[1:]:
            cur = join_env(self.dom, cur, o)
        if st.finalbody:
            cur, termf = self.exec_block(st.finalbody, cur)
            if termf:
                return cur, True
        return cur, False

    def st_Break(self, st, env):
        raise Unsupported("break")

    def st_Continue(self, st, env):
        raise Unsupported("continue")

    # -- expressions ------------------------------------------------------------------------
    def eval(self, node, env):
        m = getattr(self, "ex_" + type(node).__name__, None)
        if m is None:
            raise Unsupported("unsupported expression %s" % type(node).__name__)
        return m(node, env)

    def ex_Constant(self, node, env):
        return CONST(node.value)

    def ex_JoinedStr(self, node, env):
        return AV("str")

    def ex_FormattedValue(self, node, env):
        return AV("str")

    def ex_Name(self, node, env):
        v = env.get(node.id)
        if v is not None:
            return v
        # closure / enclosing function scopes are chained through Env.parent; then module scope
        r = self.p.resolve_name(self.frame.func.module, node.id)
        if r is not None:
            return self.lift(r)
        if node.id in _BUILTINS:
            return AV("builtin", node.id)
        return TOP()

    def lift(self, r):
        if isinstance(r, FuncInfo):
            return FUNC(r)
        if isinstance(r, ClassInfo):
            return AV("cls", r)
        if isinstance(r, ModuleInfo):
            return AV("mod", r)
        if isinstance(r, tuple):
            if r[0] == "ext":
                return EXT(r[1])
            if r[0] == "const":
                node, mod = r[1], r[2]
                if isinstance(node, ast.Constant):
                    return CONST(node.value)
                if isinstance(node, ast.Lambda):
                    fi = FuncInfo(node, mod)
                    return FUNC(fi)
                return NUM()
        return TOP()

    def resolve_static(self, node, env):
        """('ext', dotted) / FuncInfo / ClassInfo for a dotted callee, if statically known."""
        if isinstance(node, ast.Name):
            if env.get(node.id) is not None:
                v = env.get(node.id)
                if v.kind == "ext":
                    return ("ext", v.data)
                return None
            return self.p.resolve_name(self.frame.func.module, node.id)
        if isinstance(node, ast.Attribute):
            b = self.resolve_static(node.value, env)
            if b is None:
                return None
            return self.p.attr_of(b, node.attr)
        return None

    def ex_Attribute(self, node, env):
        base = self.eval(node.value, env)
        return self.getattr(base, node.attr, node)

    def getattr(self, base, attr, node):
        k = base.kind
        if (k == "const" and base.data is None) or base.maybe_none:
            h = getattr(self.dom, "on_null", None)
            if h is not None:
                h(self, base, "attribute .%s" % attr, node)
        if k == "union":
            r = None
            for alt in base.data:
                r = join(self.dom, r, self.getattr(alt, attr, node))
            return r
        if k == "obj":
            r = None
            for cls, path in base.data:
                r = join(self.dom, r, self.obj_attr(base, cls, path, attr, node))
            return r
        if k == "mod":
            r = self.p.module_attr(base.data.name, attr)
            return self.lift(r) if r is not None else TOP()
        if k == "ext":
            return EXT(base.data + "." + attr)
        if k == "cls":
            r = self.p.attr_of(base.data, attr)
            if isinstance(r, FuncInfo):
                if r.is_static:
                    return FUNC(r)
                if r.is_classmethod:
                    return FUNC(r, base)
                return FUNC(r)
            return self.lift(r) if r is not None else TOP()
        if k in ("tensor",):
            if attr == "shape":
                return AV("shape", None, self.dom.shape_ann(base.ann))
            if attr == "dtype":
                return AV("dtype", None, base.ann)
            if attr in ("device", "requires_grad", "is_cuda", "ndim"):
                return AV("num", None, E)
            if attr in ("data", "T", "mT", "real"):
                info = dict(tops.OPS["detach" if attr == "data" else "t"])
                r = self.dom.op(self, attr, info, base, [], {}, node)
                return r if r is not None else base
            if attr == "grad":
                return T()
            return AV("bound", (base, attr))
        if k == "net":
            return AV("netm", (base.data[0], base.data[1], attr))
        if k == "extmod":
            dotted, cls, path = base.data
            if attr in ("weight", "bias", "running_mean", "running_var"):
                r = self.dom.state(self, base, path + (attr,), None, node)
                return r
            return AV("bound", (base, attr))
        if k == "super":
            cls, after, self_av = base.data
            m = cls.lookup_method(attr, after=after)
            if m is not None:
                return FUNC(m, self_av)
            return AV("bound", (base, attr))
        if k in ("list", "dict", "tuple", "shape", "num", "str", "top", "const"):
            return AV("bound", (base, attr))
        return TOP(base.ann)

    def obj_attr(self, objav, cls, path, attr, node):
        table = self.p.attrs(cls)
        ai = table.get(attr)
        one = OBJ(cls, path)
        if ai is None:
            if attr == "training":
                return AV("num", None, E)
            for b in cls.ext_bases():
                kind = _EXT_BASE_ATTRS.get(b, {}).get(attr)
                if kind == "param":
                    self.dom.on_state_read(self, cls, path, attr, node)
                    return self.dom.state(self, one, path + (attr,), None, node)
                if kind == "num":
                    return NUM()
            if not cls.is_nn_module() and cls.ext_bases():
                return AV("bound", (AV("extobj", cls.ext_bases()[0]), attr))
            if cls.is_nn_module() and attr in _NN_MODULE_METHODS:
                return AV("bound", (one, attr))
            self.stats["unresolved_calls"].setdefault("%s.%s" % (cls.name, attr), norm_text(node))
            return TOP()
        if ai.kind == METHOD:
            f = ai.func
            if f.is_static:
                return FUNC(f)
            if f.is_classmethod:
                return FUNC(f, AV("cls", cls))
            return FUNC(f, one)
        if ai.kind == PROPERTY:
            return self.run_function(ai.func, one, [], {}, node)
        if ai.kind in (PARAM, BUFFER):
            self.dom.on_state_read(self, cls, path, attr, node)
            v = self.dom.state(self, one, path + (attr,), ai, node)
            # a buffer / parameter slot registered empty (register_buffer("x", None)) and filled later: it may
            # still be None when read
            val = getattr(ai, "value", None)
            if ai.kind == BUFFER and isinstance(val, ast.Constant) and val.value is None and v.kind in ("tensor", "top") and not v.maybe_none:
                v = AV(v.kind, v.data, v.ann, True)
            return v
        if ai.kind == MODULE:
            return OBJ(ai.extra, path + (attr,))
        if ai.kind == MODULELIST:
            elems = []
            for e in ai.extra or [None]:
                if isinstance(e, ClassInfo):
                    elems.append(OBJ(e, path + (attr,)))
                elif isinstance(e, str):
                    elems.append(AV("extmod", (e, cls, path + (attr,))))
                else:
                    elems.append(NET(self._contract(cls, attr), "%s.%s" % (cls.name, attr)))
            return LST(None, self._join_all(elems))
        if ai.kind == EXTMODULE:
            return AV("extmod", (ai.extra, cls, path + (attr,)))
        if ai.kind == FACTORY:
            v = NET(self._contract(cls, attr), "%s.%s" % (cls.name, attr))
            if any(_is_none_node(a.value) for a in [ai] + ai.alts):
                v = AV(v.kind, v.data, v.ann, True)
            return v
        # PLAIN
        self.dom.on_state_read(self, cls, path, attr, node)
        if isinstance(ai.extra, ClassInfo):
            return OBJ(ai.extra, path + (attr,))
        return self.plain_attr(one, cls, path, ai, node)

    def _contract(self, cls, attr):
        for c in cls.repo_mro():
            if (c.name, attr) in CONTRACTS:
                return CONTRACTS[(c.name, attr)]
        return "net"

    def plain_attr(self, one, cls, path, ai, node):
        """Value of a plain (non-registered) attribute, from its constructor expression."""
        vals = [ai] + list(ai.alts)
        res = None
        for a in vals:
            v = a.value
            r = None
            if v is None:
                r = TOP()
            elif isinstance(v, ast.Constant):
                r = CONST(v.value) if v.value is None else (NUM() if isinstance(v.value, (int, float)) and not isinstance(v.value, bool) else CONST(v.value))
                if isinstance(v.value, bool):
                    r = NUM()  # flags are mutable configuration: both values possible
            elif isinstance(v, ast.Name):
                params = {p for p, _ in a.func.params()} if a.func is not None else set()
                if v.id in params:
                    contract = None
                    for c in cls.repo_mro():
                        if (c.name, ai.name) in CONTRACTS:
                            contract = CONTRACTS[(c.name, ai.name)]
                    if contract is not None:
                        r = NET(contract, "%s.%s" % (cls.name, ai.name))
                    else:
                        r = self.dom_plain_param(one, cls, path, ai, node)
                else:
                    r = self.dom_plain_expr(one, cls, path, ai, v, node)
            elif isinstance(v, ast.Lambda):
                r = FUNC(FuncInfo(v, a.cls.module))
            elif isinstance(v, ast.Dict) or (isinstance(v, ast.Call) and isinstance(v.func, ast.Name) and v.func.id in ("dict", "OrderedDict", "defaultdict")):
                r = DCT(None)  # a container kept on the module (a memo, a registry)
            elif (isinstance(v, (ast.List, ast.Set)) and not v.elts) or (isinstance(v, ast.Call) and isinstance(v.func, ast.Name) and v.func.id in ("list", "set") and not v.args):
                r = LST(None, None)
            else:
                r = self.dom_plain_expr(one, cls, path, ai, v, node)
            res = join(self.dom, res, r)
        return res

    def dom_plain_param(self, one, cls, path, ai, node):
        """A constructor argument stored as is: configuration number / string / callable."""
        h = getattr(self.dom, "plain_param", None)
        if h is not None:
            r = h(self, one, cls, path, ai, node)
            if r is not None:
                return r
        if ai.name in _CALLABLE_ATTRS:
            return NET("net", "%s.%s" % (cls.name, ai.name))
        return AV("num", None, E, True)

    def dom_plain_expr(self, one, cls, path, ai, v, node):
        h = getattr(self.dom, "plain_expr", None)
        if h is not None:
            r = h(self, one, cls, path, ai, v, node)
            if r is not None:
                return r
        # tensor-valued plain attributes (torch.* constructor results)
        if isinstance(v, ast.Call):
            callee = self.p.resolve_expr(ai.cls.module, v.func)
            if isinstance(callee, tuple) and callee[0] == "ext" and callee[1].startswith("torch.nn.") and callee[1].split(".")[-1][:1].isupper():
                return AV("extmod", (callee[1], cls, path + (ai.name,)))
            if isinstance(callee, tuple) and callee[0] == "ext" and callee[1].startswith("torch.") and not callee[1].startswith("torch.Size"):
                return self.dom.state(self, one, path + (ai.name,), ai, node)
            if isinstance(callee, tuple) and callee[0] == "ext" and callee[1].startswith("numpy."):
                return NUM()
        if isinstance(v, (ast.List, ast.Tuple)):
            return LST(None, NUM())
        return AV("num", None, E, False)

    def ex_Subscript(self, node, env):
        base = self.eval(node.value, env)
        idx = self.eval_index(node.slice, env)
        self.dom.on_index_use(self, idx, node)
        k = base.kind
        if (k == "const" and base.data is None) or base.maybe_none:
            h = getattr(self.dom, "on_null", None)
            if h is not None:
                h(self, base, "subscript", node)
        if k in ("tensor", "top"):
            r = self.dom.subscript(self, base, idx, node)
            if r is not None:
                return r
            return AV(k, None, base.ann)
        if k == "tuple":
            if idx.kind == "const" and isinstance(idx.data, int) and -len(base.data) <= idx.data < len(base.data):
                return base.data[idx.data]
            if idx.kind == "slice":
                lo, hi, stp = idx.data
                if all(x is None or (x.kind == "const" and isinstance(x.data, int)) for x in (lo, hi, stp)):
                    sl = slice(*(x.data if x is not None else None for x in (lo, hi, stp)))
                    return TUP(base.data[sl])
            return self._join_all(base.data) if base.data else TOP()
        if k == "list":
            items, elem = base.data
            if items is not None and idx.kind == "const" and isinstance(idx.data, int) and -len(items) <= idx.data < len(items):
                return items[idx.data]
            if idx.kind == "slice":
                lo, hi, stp = idx.data
                if items is not None and all(x is None or (x.kind == "const" and isinstance(x.data, int)) for x in (lo, hi, stp)):
                    sl = slice(*(x.data if x is not None else None for x in (lo, hi, stp)))
                    return LST(items[sl], None)
                return LST(None, list_elem(self.dom, base))
            e = list_elem(self.dom, base)
            return e if e is not None else TOP()
        if k == "dict":
            if base.data is not None and idx.kind == "const" and idx.data in base.data:
                return base.data[idx.data]
            return TOP()
        if k == "shape":
            if idx.kind == "slice":
                return AV("shape", None, base.ann)
            return NUM(base.ann)
        if k == "num":
            return NUM(base.ann)
        if k == "ext":
            return base  # typing generics
        return TOP(base.ann)

    def eval_index(self, node, env):
        if isinstance(node, ast.Slice):
            return AV("slice", tuple(self.eval(x, env) if x is not None else None for x in (node.lower, node.upper, node.step)))
        if isinstance(node, ast.Tuple):
            return AV("idxtuple", [self.eval_index(e, env) for e in node.elts])
        return self.eval(node, env)

    def ex_Slice(self, node, env):
        return self.eval_index(node, env)

    def ex_Starred(self, node, env):
        return AV("starred", self.eval(node.value, env))

    def ex_Tuple(self, node, env):
        items = []
        for e in node.elts:
            v = self.eval(e, env)
            if v.kind == "starred":
                inner = v.data
                if inner.kind == "tuple":
                    items.extend(inner.data)
                elif inner.kind == "list" and inner.data[0] is not None:
                    items.extend(inner.data[0])
                else:
                    return LST(None, join(self.dom, self._join_all(items) if items else None, self._elem_of(inner)))
            else:
                items.append(v)
        return TUP(items)

    def _elem_of(self, v):
        if v.kind == "list":
            return list_elem(self.dom, v) or TOP()
        if v.kind == "tuple":
            return self._join_all(v.data) if v.data else TOP()
        if v.kind == "shape":
            return NUM(v.ann)
        if v.kind == "tensor":
            return v
        return TOP(all_ann(self.dom, v))

    def ex_List(self, node, env):
        t = self.ex_Tuple(node, env)
        if t.kind == "tuple":
            return LST(t.data, None)
        return t

    def ex_Set(self, node, env):
        return self.ex_List(node, env)

    def ex_Dict(self, node, env):
        d = {}
        for k, v in zip(node.keys, node.values):
            if k is None:
                return DCT(None)
            kv = self.eval(k, env)
            if kv.kind != "const":
                return DCT(None)
            d[kv.data] = self.eval(v, env)
        return DCT(d)

    def ex_Lambda(self, node, env):
        fi = FuncInfo(node, self.frame.func.module, cls=None, outer=self.frame.func)
        return FUNC(fi, self.frame.self_av, env)

    def ex_IfExp(self, node, env):
        t = self.eval(node.test, env)
        self.dom.on_branch(self, t, node)
        d = _truth(t)
        if d is True:
            return self.eval(node.body, env)
        if d is False:
            return self.eval(node.orelse, env)
        e1 = env.copy()
        self._refine(node.test, True, e1)
        e2 = env.copy()
        self._refine(node.test, False, e2)
        return join(self.dom, self.eval(node.body, e1), self.eval(node.orelse, e2))

    def ex_BoolOp(self, node, env):
        vals = []
        cur_env = env
        for v in node.values:
            av = self.eval(v, cur_env)
            vals.append(av)
            d = _truth(av)
            if isinstance(node.op, ast.And):
                if d is False:
                    return CONST(False) if len(vals) == 1 else self._bool_join(vals)
                cur_env = cur_env.copy()
                self._refine(v, True, cur_env)
            else:
                if d is True and av.kind == "const":
                    return av if len(vals) == 1 else self._bool_join(vals)
                cur_env = cur_env.copy()
                self._refine(v, False, cur_env)
        ds = [_truth(x) for x in vals]
        if isinstance(node.op, ast.And) and all(d is True for d in ds):
            return vals[-1]
        if isinstance(node.op, ast.Or) and all(d is False for d in ds):
            return vals[-1]
        return self._bool_join(vals)

    def _bool_join(self, vals):
        r = None
        for v in vals:
            r = join(self.dom, r, v)
        if r.kind == "const":
            return NUM()
        return r

    def ex_UnaryOp(self, node, env):
        v = self.eval(node.operand, env)
        if isinstance(node.op, ast.Not):
            d = _truth(v)
            if d is not None:
                return CONST(not d)
            return NUM(v.ann if v.kind in ("num", "tensor", "top") else E)
        if v.kind == "const" and isinstance(v.data, (int, float)) and not isinstance(v.data, bool):
            try:
                if isinstance(node.op, ast.USub):
                    return CONST(-v.data)
                if isinstance(node.op, ast.UAdd):
                    return CONST(+v.data)
            except Exception:
                pass
        if v.kind in ("tensor", "top"):
            info = tops.OPS["logical_not" if isinstance(node.op, ast.Invert) else "neg"]
            r = self.dom.op(self, "logical_not" if isinstance(node.op, ast.Invert) else "neg", info, v, [], {}, node)
            if r is not None:
                return r
            return AV(v.kind, None, v.ann)
        return NUM(v.ann)

    def ex_BinOp(self, node, env):
        l = self.eval(node.left, env)
        r = self.eval(node.right, env)
        return self._binop(node.op, l, r, node)

    def _binop(self, op, l, r, node):
        # python-level structure first
        if l.kind == "const" and r.kind == "const" and isinstance(l.data, (int, float)) and isinstance(r.data, (int, float)) and not isinstance(l.data, bool) and not isinstance(r.data, bool):
            try:
                v = _fold(op, l.data, r.data)
                if v is not None:
                    return CONST(v)
            except Exception:
                pass
            return NUM()
        if isinstance(op, ast.Add):
            if l.kind in ("list", "tuple", "shape") and r.kind in ("list", "tuple", "shape"):
                if l.kind == "shape" or r.kind == "shape":
                    return AV("shape", None, self.dom.join_ann(all_ann(self.dom, l), all_ann(self.dom, r)))
                if l.kind == "tuple" and r.kind == "tuple":
                    return TUP(l.data + r.data)
                li = l.data[0] if l.kind == "list" else l.data
                ri = r.data[0] if r.kind == "list" else r.data
                if li is not None and ri is not None:
                    return LST(list(li) + list(ri), None)
                return LST(None, join(self.dom, self._elem_of(l), self._elem_of(r)))
        if isinstance(op, ast.Mult):
            if l.kind == "list" and (r.kind in ("num", "const")):
                if r.kind == "const" and isinstance(r.data, int) and l.data[0] is not None and r.data <= 8:
                    return LST(list(l.data[0]) * r.data, None)
                return LST(None, self._elem_of(l))
            if r.kind == "list" and (l.kind in ("num", "const")):
                return LST(None, self._elem_of(r))
        if l.kind in ("tensor", "top") or r.kind in ("tensor", "top"):
            res = self.dom.binop(self, op, l, r, node)
            if res is not None:
                return res
            kind = "tensor" if "tensor" in (l.kind, r.kind) else "top"
            return AV(kind, None, self.dom.join_ann(all_ann(self.dom, l), all_ann(self.dom, r)))
        if l.kind == "str" or r.kind == "str" or (l.kind == "const" and isinstance(l.data, str)):
            return AV("str")
        return NUM(self.dom.join_ann(all_ann(self.dom, l), all_ann(self.dom, r)))

    def ex_Compare(self, node, env):
        left = self.eval(node.left, env)
        result = None
        cur = left
        for op, c in zip(node.ops, node.comparators):
            right = self.eval(c, env)
            r = self._compare1(op, cur, right, node)
            result = r if result is None else self._bool_join([result, r])
            cur = right
        return result

    def _compare1(self, op, l, r, node):
        if isinstance(op, (ast.Is, ast.IsNot)):
            positive = isinstance(op, ast.Is)
            if r.kind == "const" and r.data is None:
                if l.kind == "const" and l.data is None:
                    return CONST(positive)
                if l.kind == "const" or (not l.maybe_none and l.kind not in ("top",)):
                    return CONST(not positive)
                return NUM()
            if l.kind == "const" and r.kind == "const":
                return CONST((l.data is r.data) == positive)
            return NUM()
        if l.kind == "const" and r.kind == "const" and not l.maybe_none and not r.maybe_none:
            try:
                if isinstance(op, ast.Eq):
                    return CONST(l.data == r.data)
                if isinstance(op, ast.NotEq):
                    return CONST(l.data != r.data)
                if isinstance(op, ast.Lt):
                    return CONST(l.data < r.data)
                if isinstance(op, ast.LtE):
                    return CONST(l.data <= r.data)
                if isinstance(op, ast.Gt):
                    return CONST(l.data > r.data)
                if isinstance(op, ast.GtE):
                    return CONST(l.data >= r.data)
            except Exception:
                return NUM()
        if l.kind in ("tensor", "top") or r.kind in ("tensor", "top"):
            res = self.dom.compare(self, l, r, node)
            if res is not None:
                return res
            return AV("tensor" if "tensor" in (l.kind, r.kind) else "top", None, self.dom.join_ann(all_ann(self.dom, l), all_ann(self.dom, r)))
        return NUM(self.dom.join_ann(all_ann(self.dom, l), all_ann(self.dom, r)))

    def _literal_iter(self, node, env):
        """the constants a comprehension's single generator runs over, when they are written out"""
        if len(node.generators) != 1 or node.generators[0].ifs or getattr(node.generators[0], "is_async", 0):
            return None
        it = node.generators[0].iter
        if isinstance(it, (ast.Tuple, ast.List)) and 0 < len(it.elts) <= 16 and all(isinstance(x, ast.Constant) for x in it.elts):
            return [x for x in it.elts]
        return None

    def _comp_unrolled(self, node, env, elts):
        out = []
        for c in elts:
            cenv = Env(env)
            self.assign(node.generators[0].target, self.eval(c, env), cenv, node)
            if isinstance(node, ast.DictComp):
                out.append((self.eval(node.key, cenv), self.eval(node.value, cenv)))
            else:
                out.append(self.eval(node.elt, cenv))
        return out

    def ex_ListComp(self, node, env):
        lit = self._literal_iter(node, env)
        if lit is not None and isinstance(node, ast.ListComp):
            return LST(self._comp_unrolled(node, env, lit), None)
        e = self._comp(node, env)
        return LST(None, e)

    def ex_GeneratorExp(self, node, env):
        e = self._comp(node, env)
        return LST(None, e)

    def ex_SetComp(self, node, env):
        return self.ex_ListComp(node, env)

    def ex_DictComp(self, node, env):
        lit = self._literal_iter(node, env)
        if lit is not None:
            pairs = self._comp_unrolled(node, env, lit)
            if all(k.kind == "const" and isinstance(k.data, str) for k, _ in pairs):
                return DCT({k.data: v for k, v in pairs})
        return DCT(None)

    def _comp(self, node, env):
        cenv = Env(env)
        for g in node.generators:
            it = self.eval(g.iter, cenv)
            self.assign(g.target, self.iter_elem(it, node), cenv, node)
            for cond in g.ifs:
                self.eval(cond, cenv)
        return self.eval(node.elt, cenv)

    def ex_Yield(self, node, env):
        v = self.eval(node.value, env) if node.value is not None else NONE
        self.frame.yields.append(v)
        return NONE

    def ex_YieldFrom(self, node, env):
        it = self.eval(node.value, env)
        self.frame.yields.append(self.iter_elem(it, node))
        return NONE

    def ex_NamedExpr(self, node, env):
        raise Unsupported("walrus")

    def ex_Await(self, node, env):
        raise Unsupported("await")

    def iter_elem(self, it, node):
        k = it.kind
        if k == "list":
            return list_elem(self.dom, it) or TOP()
        if k == "tuple":
            return self._join_all(it.data) if it.data else TOP()
        if k == "tensor":
            info = tops.OPS["unbind"]
            r = self.dom.op(self, "iter", info, it, [], {}, node)
            return r if r is not None else it
        if k in ("num", "shape"):
            return NUM(it.ann)
        if k == "dict":
            return TOP()
        return TOP(all_ann(self.dom, it))

    # -- calls ------------------------------------------------------------------------------
    def ex_Call(self, node, env):
        # super()
        if isinstance(node.func, ast.Name) and node.func.id == "super" and env.get("super") is None:
            fi = self.frame.func
            f = fi
            while f is not None and f.cls is None:
                f = f.outer
            self_av = self.frame.self_av
            if f is None or self_av is None or self_av.kind != "obj":
                return TOP()
            recv_cls = self_av.data[0][0]
            return AV("super", (recv_cls, f.cls, self_av))
        if (
            isinstance(node.func, ast.Attribute)
            and node.func.attr in ("append", "extend")
            and isinstance(node.func.value, ast.Name)
            and len(node.args) == 1
        ):
            lv = env.get(node.func.value.id)
            if lv is not None and lv.kind == "list":
                v = self.eval(node.args[0], env)
                if node.func.attr == "extend":
                    v = self._elem_of(v)
                items, elem = lv.data
                if items is not None and len(items) < 4 and node.func.attr == "append" and not self._in_loop(node):
                    newv = LST(list(items) + [v], None)
                else:
                    newv = LST(None, join(self.dom, list_elem(self.dom, lv), v))
                self._set_existing(env, node.func.value.id, newv)
                return NONE
        if isinstance(node.func, ast.Name) and node.func.id == "getattr" and len(node.args) in (2, 3) and not node.keywords and env.get("getattr") is None:
            # getattr(obj, "name"): the attribute access it stands for
            nm = self.eval(node.args[1], env)
            if nm.kind == "const" and isinstance(nm.data, str) and nm.data.isidentifier() and len(node.args) == 2:
                syn = ast.Attribute(value=node.args[0], attr=nm.data, ctx=ast.Load())
                ast.copy_location(syn, node)
                syn._parent = getattr(node, "_parent", None)
                return self.eval(syn, env)
        callee = self.eval(node.func, env)
        args = []
        for a in node.args:
            v = self.eval(a, env)
            if v.kind == "starred":
                inner = v.data
                if inner.kind == "tuple":
                    args.extend(inner.data)
                elif inner.kind == "list" and inner.data[0] is not None:
                    args.extend(inner.data[0])
                else:
                    args.append(AV("varargs", self._elem_of(inner)))
            else:
                args.append(v)
        kwargs = {}
        unknown_kw = False
        for kw in node.keywords:
            v = self.eval(kw.value, env)
            if kw.arg is None:
                if v.kind == "dict" and v.data is not None:
                    for kk, vv in v.data.items():
                        kwargs[kk] = vv
                    # keys present on only one joined path are optional: the callee's
                    # default may apply instead
                    opt = [kk for kk in v.data if kk in v.ann]
                    if opt:
                        kwargs["__optional__"] = opt
                else:
                    unknown_kw = True
            else:
                kwargs[kw.arg] = v
        res = self.call(callee, args, kwargs, node, env)
        if res is not None and res.kind == "bottom":
            raise _Terminate()
        pc = getattr(self.dom, "post_call", None)
        if pc is not None:
            r2 = pc(self, callee, args, kwargs, res, node)
            if r2 is not None:
                res = r2
        if getattr(self.dom, "refine_rejected_none", False) and callee.kind == "func" and env is not None:
            # `f(x)` returned normally: if f raises whenever x is None, x is not None from here on
            for i, a in enumerate(node.args):
                if isinstance(a, ast.Name) and i < len(args) and args[i].maybe_none and args[i].kind != "const":
                    trial = list(args)
                    trial[i] = NONE
                    try:
                        r2 = self.call(callee, trial, dict(kwargs), node, env)
                    except _Terminate:
                        r2 = BOTTOM
                    if r2 is not None and r2.kind == "bottom":
                        cur = env.get(a.id)
                        if cur is not None and cur.maybe_none:
                            self._set_existing(env, a.id, AV(cur.kind, cur.data, cur.ann, False))
        self.dom.on_call(self, callee, args, kwargs, res, node)
        return res

    def _in_loop(self, node):
        n = getattr(node, "_parent", None)
        while n is not None and not isinstance(n, (ast.FunctionDef, ast.Lambda)):
            if isinstance(n, (ast.For, ast.While, ast.ListComp, ast.GeneratorExp)):
                return True
            n = getattr(n, "_parent", None)
        return False

    def _set_existing(self, env, name, val):
        e = env
        while e is not None:
            if name in e.vars:
                e.vars[name] = val
                return
            e = e.parent
        env.set(name, val)

    def call(self, callee, args, kwargs, node, env=None):
        k = callee.kind
        optional = kwargs.pop("__optional__", []) if isinstance(kwargs.get("__optional__"), list) else []
        if k == "union":
            res = None
            for alt in callee.data:
                res = join(self.dom, res, self.call(alt, list(args), dict(kwargs), node, env))
            return res
        if k == "func":
            res = None
            for fi, bound, cenv in callee.data:
                res = join(self.dom, res, self.call_func(fi, bound, cenv, list(args), dict(kwargs), node, optional))
            return res
        if k == "obj":
            res = None
            for cls, path in callee.data:
                one = OBJ(cls, path)
                m = cls.lookup_method("forward") if cls.is_nn_module() else cls.lookup_method("__call__")
                if m is None:
                    res = join(self.dom, res, TOP())
                else:
                    res = join(self.dom, res, self.call_func(m, one, None, list(args), dict(kwargs), node, optional))
            return res
        if k == "cls":
            return self.construct(callee.data, args, kwargs, node)
        if k == "ext":
            return self.call_ext(callee.data, args, kwargs, node)
        if k == "bound":
            recv, name = callee.data
            return self.call_method(recv, name, args, kwargs, node)
        if k == "net":
            return self.call_net(callee, "__call__", args, kwargs, node)
        if k == "netm":
            contract, label, meth = callee.data
            return self.call_net(NET(contract, label), meth, args, kwargs, node)
        if k == "extmod":
            dotted, cls, path = callee.data
            if dotted == "torch.nn.Identity":
                return args[0] if args else NONE
            if args and self._extmod_inplace(cls, path):
                # nn.Dropout(inplace=True) / nn.ReLU(inplace=True) ...: the module overwrites its input
                self.dom.on_write(self, "module(inplace=True)", args[0], NONE, node)
            return self.dom.ext_module_result(self, dotted, path, args, kwargs, node)
        if k == "builtin":
            return self.call_builtin(callee.data, args, kwargs, node)
        if k == "super":
            return NONE
        # unknown callable
        self.stats["unresolved_calls"].setdefault(norm_text(node.func), "%s:%d" % (self.frame.func.module.relpath, node.lineno))
        ann = E
        for a in list(args) + list(kwargs.values()):
            if isinstance(a, AV):
                ann = self.dom.join_ann(ann, all_ann(self.dom, a))
        return TOP(ann)

    def _extmod_inplace(self, cls, path):
        """was the torch.nn module kept in this attribute constructed with inplace=True (or a non-constant flag)?"""
        if cls is None or not path:
            return False
        try:
            ai = self.p.attrs(cls).get(path[-1])
        except Exception:
            return False
        if ai is None:
            return False
        for a in [ai] + list(getattr(ai, "alts", [])):
            v = getattr(a, "value", None)
            for n in ast.walk(v) if v is not None else []:
                if isinstance(n, ast.Call):
                    for kw in n.keywords:
                        if kw.arg == "inplace" and not (isinstance(kw.value, ast.Constant) and kw.value.value is False):
                            return True
        return False

    def call_func(self, fi, bound, cenv, args, kwargs, node, optional=()):
        h = getattr(self.dom, "summary", None)
        if h is not None:
            r = h(self, fi, bound, args, kwargs, node)
            if r is not None:
                return r
        if cenv is not None:
            # nested function / lambda: evaluate in a child of its defining environment
            return self._call_closure(fi, bound, cenv, args, kwargs, node)
        if optional:
            # a keyword that is present on one path only: analyse with and without it
            r1 = self.run_function(fi, bound, args, dict(kwargs), node)
            kw2 = {k: v for k, v in kwargs.items() if k not in optional}
            r2 = self.run_function(fi, bound, args, kw2, node)
            return join(self.dom, r1, r2)
        return self.run_function(fi, bound, args, kwargs, node)

    def _call_closure(self, fi, bound, cenv, args, kwargs, node):
        caller = self.frame
        if sum(1 for f in caller.stack() if f.func.node is fi.node) > 2:
            return TOP()
        frame = Frame(fi, bound if bound is not None else caller.self_av, node, caller)
        self.frame = frame
        try:
            env = self._bind(fi, bound, args, kwargs)
            env.parent = cenv
            if fi.is_lambda:
                v = self.eval(fi.node.body, env)
                frame.returns.append(v)
            else:
                self.exec_block(fi.node.body, env)
        finally:
            self.frame = caller
        if frame.yields:
            return LST(None, self._join_all(frame.yields))
        if frame.returns:
            return self._join_all(frame.returns)
        return NONE

    def construct(self, cls, args, kwargs, node):
        h = getattr(self.dom, "on_construct", None)
        if h is not None:
            h(self, cls, args, kwargs, node)
        if cls.is_nn_module():
            return OBJ(cls, ("<new>",))
        if cls.is_subclass_of("Exception") or any(isinstance(b, str) and b.endswith("Exception") for b in cls.mro()):
            return AV("exc", cls)
        return OBJ(cls, ("<new>",))

    def call_net(self, netav, meth, args, kwargs, node):
        contract = netav.data[0]
        r = self.dom.net_result(self, netav, meth, args, kwargs, node)
        if contract == "transform":
            if meth in ("__call__", "forward", "inverse"):
                r2 = self.dom.net_result(self, netav, meth + ":logabsdet", args, kwargs, node)
                return TUP([r, r2])
            return r
        if contract == "distribution":
            if meth == "sample_and_log_prob":
                r2 = self.dom.net_result(self, netav, meth + ":log_prob", args, kwargs, node)
                return TUP([r, r2])
            return r
        if meth in ("parameters",):
            return LST(None, r)
        return r

    def call_builtin(self, name, args, kwargs, node):
        dom = self.dom
        if name in ("len", "int", "float", "abs", "min", "max", "sum", "round", "bool"):
            ann = E
            for a in args:
                ann = dom.join_ann(ann, all_ann(dom, a))
            if name in ("int", "float", "bool") and args and args[0].kind in ("tensor", "top"):
                info = tops.OPS["item"]
                r = dom.op(self, "item", info, args[0], [], {}, node)
                if r is not None:
                    return r
            if name in ("min", "max") and any(a.kind == "tensor" for a in args):
                return T(ann)
            return NUM(ann)
        if name == "range":
            return LST(None, NUM())
        if name == "zip":
            return LST(None, TUP([self._elem_of(a) for a in args]))
        if name == "enumerate":
            return LST(None, TUP([NUM(), self._elem_of(args[0])])) if args else TOP()
        if name in ("reversed", "list", "tuple", "sorted", "iter"):
            if not args:
                return LST([], None)
            a = args[0]
            if a.kind == "tuple" and name in ("list", "tuple"):
                return LST(a.data, None) if name == "list" else a
            if a.kind == "list":
                if name == "reversed" and a.data[0] is not None:
                    return LST(list(reversed(a.data[0])), None)
                if name in ("list", "tuple") :
                    return a
                return LST(None, self._elem_of(a))
            if a.kind == "shape":
                return a
            return LST(None, self._elem_of(a))
        if name == "map":
            if len(args) >= 2:
                e = self._elem_of(args[1])
                r = self.call(args[0], [e], {}, node)
                if args[1].kind in ("tuple", "list"):
                    items = args[1].data if args[1].kind == "tuple" else args[1].data[0]
                    if items is not None:
                        return LST([self.call(args[0], [x], {}, node) for x in items], None)
                return LST(None, r)
            return TOP()
        if name in ("isinstance", "hasattr", "callable", "issubclass"):
            return NUM()
        if name == "getattr":
            return TOP()
        if name == "type":
            return TOP()
        if name in ("print", "setattr"):
            if name == "setattr" and args and args[0].kind == "obj":
                # setattr(obj, "name", v) with the name known in this calling context is  obj.name = v
                nm = args[1] if len(args) == 3 else None
                attr = nm.data if nm is not None and nm.kind == "const" and isinstance(nm.data, str) and nm.data.isidentifier() else "<setattr>"
                self.dom.on_attr_store(self, args[0], attr, args[-1], node)
            return NONE
        if name in ("str", "repr", "format"):
            return AV("str")
        if name in ("dict",):
            return DCT(dict(kwargs) if not args else None)
        if name in ("set", "frozenset"):
            return LST(None, self._elem_of(args[0]) if args else None)
        if name in ("any", "all"):
            return NUM(all_ann(dom, args[0]) if args else E)
        if name in ("ValueError", "TypeError", "RuntimeError", "NotImplementedError", "AssertionError", "Exception", "KeyError", "IndexError", "DeprecationWarning"):
            return AV("exc", name)
        return TOP()

    def call_method(self, recv, name, args, kwargs, node):
        k = recv.kind
        dom = self.dom
        if k in ("tensor", "top"):
            info = tops.OPS.get(name)
            if tops.is_inplace_method(name):
                dom.on_write(self, "method:" + name, recv, args[0] if args else NONE, node)
                r = dom.op(self, name, {"cat": "inplace"}, recv, args, kwargs, node)
                return r if r is not None else recv
            if info is None:
                if k == "tensor":
                    self.stats["unknown_ops"].setdefault("." + name, "%s:%d" % (self.frame.func.module.relpath, node.lineno))
                ann = recv.ann
                for a in list(args) + list(kwargs.values()):
                    ann = dom.join_ann(ann, all_ann(dom, a))
                return AV(k, None, ann)
            return self.apply_op(name, info, recv, args, kwargs, node)
        if k == "list":
            items, elem = recv.data
            if name in ("append", "extend", "insert", "pop", "reverse", "sort", "index", "count", "copy"):
                # lists are handled flow-sensitively by rebinding the variable they live in
                if name == "pop":
                    return list_elem(dom, recv) or TOP()
                if name == "copy":
                    return recv
                return NONE
            return TOP()
        if k in ("dict", "list") and name in ("update", "setdefault", "pop", "popitem", "clear", "append", "extend", "insert", "remove", "sort", "reverse", "__setitem__", "__delitem__") and isinstance(node, ast.Call) and isinstance(node.func, ast.Attribute):
            ch = attr_chain(node.func.value) if isinstance(node.func.value, ast.Attribute) else None
            if ch and ch.startswith("self."):
                dom.on_container_mutation(self, ch, "." + name + "()", node)
        if k == "dict":
            if name in ("keys", "values", "items"):
                return LST(None, TOP())
            if name == "get":
                return TOP()
            return TOP()
        if k in ("str",) or (k == "const" and isinstance(recv.data, str)):
            return AV("str")
        if k == "shape":
            if name == "numel":
                return NUM(recv.ann)
            return NUM(recv.ann)
        if k == "num":
            # numpy arrays / python numbers
            return NUM(recv.ann)
        if k == "obj":
            # nn.Module API on repository objects
            if name in ("register_buffer", "register_parameter") and args and args[0].kind == "const":
                persistent = kwargs.get("persistent", args[2] if len(args) > 2 else CONST(True))
                h = getattr(dom, "on_register", None)
                if h is not None:
                    h(self, recv, name, args[0].data, args[1] if len(args) > 1 else NONE, persistent, node)
                return NONE
            if name in ("parameters", "buffers", "named_parameters", "children", "modules"):
                return LST(None, T())
            if name in ("train", "eval", "to", "double", "float", "cuda", "cpu", "requires_grad_", "zero_grad", "apply", "register_buffer", "register_parameter", "add_module", "state_dict", "load_state_dict", "_apply", "_load_from_state_dict", "extra_repr", "type"):
                return recv if name not in ("state_dict",) else DCT(None)
            return TOP()
        if k == "extmod":
            return TOP()
        if k == "extobj":
            # A-EXT: torch.distributions objects return newly computed tensors
            return T()
        if k == "super":
            # nn.Module / external base method
            cls, after, self_av = recv.data
            if name == "__init__":
                return NONE
            return self_av if name in ("train", "eval", "_apply") else TOP()
        if k == "const" and recv.data is None:
            return TOP()
        return TOP(all_ann(dom, recv))

    def call_ext(self, dotted, args, kwargs, node):
        dom = self.dom
        parts = dotted.split(".")
        root = parts[0]
        name = parts[-1]
        if root == "torch":
            if dotted == "torch.no_grad":
                return AV("ctx", "no_grad")
            if dotted in ("torch.Size",):
                return AV("shape", None, E)
            if dotted.startswith("torch.nn.init."):
                if args:
                    dom.on_write(self, "init:" + name, args[0], args[1] if len(args) > 1 else NONE, node)
                    r = dom.op(self, name, {"cat": "init"}, args[0], args[1:], kwargs, node)
                    return r if r is not None else args[0]
                return NONE
            if dotted.startswith("torch.distributions."):
                return AV("extobj", dotted)
            if dotted.startswith("torch.nn.") and name[:1].isupper():
                if name in ("Parameter", "Buffer") and args:
                    return args[0]  # the tensor itself: what it is registered as is the model's attribute table
                return AV("extmod", (dotted, None, ("<new>",)))
            info = tops.OPS.get(name)
            if info is None:
                self.stats["unknown_ops"].setdefault(dotted, "%s:%d" % (self.frame.func.module.relpath, node.lineno))
                ann = E
                for a in list(args) + list(kwargs.values()):
                    ann = dom.join_ann(ann, all_ann(dom, a))
                return T(ann)
            if tops.is_inplace_method(name) and args:
                dom.on_write(self, "method:" + name, args[0], args[1] if len(args) > 1 else NONE, node)
                return args[0]
            if info["cat"] == "ctor":
                r = dom.ctor(self, name, args, kwargs, node)
                return r
            if "out" in kwargs:
                dom.on_write(self, "out=", kwargs["out"], NONE, node)
            if not args:
                # keyword-only call such as torch.gather(input=..)
                first = kwargs.get("input")
                if first is None:
                    return T()
                rest_kw = {k: v for k, v in kwargs.items() if k != "input"}
                return self.apply_op(name, info, first, [], rest_kw, node)
            return self.apply_op(name, info, args[0], args[1:], kwargs, node)
        if root in ("numpy", "math"):
            ann = E
            for a in list(args) + list(kwargs.values()):
                ann = dom.join_ann(ann, all_ann(dom, a))
            h = getattr(dom, "numpy_call", None)
            if h is not None:
                r = h(self, dotted, args, kwargs, node)
                if r is not None:
                    return r
            return NUM(ann)
        if root == "warnings":
            return NONE
        if root == "UMNN":
            h = getattr(dom, "umnn_call", None)
            if h is not None:
                return h(self, dotted, args, kwargs, node)
            ann = E
            for a in args:
                if a.kind == "tensor":
                    ann = dom.join_ann(ann, a.ann)
            return T()
        if root == "inspect":
            return TOP()
        self.stats["unresolved_calls"].setdefault(dotted, "%s:%d" % (self.frame.func.module.relpath, node.lineno))
        return TOP()

    def apply_op(self, name, info, recv, args, kwargs, node):
        dom = self.dom
        if recv.kind == "list" and name in ("cat", "stack"):
            recv_t = self._elem_of(recv)
        elif recv.kind == "tuple" and name in ("cat", "stack"):
            recv_t = self._join_all(recv.data) if recv.data else T()
        else:
            recv_t = recv
        # the sequence a cat / stack joins, element by element (order-sensitive domains read it)
        self.last_seq = recv if name in ("cat", "stack") and recv.kind in ("list", "tuple") else None
        r = dom.op(self, name, info, recv_t, args, kwargs, node)
        if r is not None:
            return r
        cat = info["cat"]
        ann = all_ann(dom, recv_t)
        if cat == "scalar":
            if name == "size" and not args and "dim" not in kwargs:
                return AV("shape", None, ann)
            return NUM(ann)
        if cat == "alias":
            return AV("tensor", None, ann)
        if cat == "aliases":
            return LST(None, AV("tensor", None, ann))
        if cat == "tuple":
            return TUP([T(ann) for _ in range(info["n"])])
        for a in list(args) + list(kwargs.values()):
            if isinstance(a, AV) and a.kind in ("tensor", "top", "list", "tuple"):
                ann = dom.join_ann(ann, all_ann(dom, a))
        return T(ann)


def _as_load(t):
    import copy

    n = copy.copy(t)
    n.ctx = ast.Load()
    return n


def _is_none_node(v):
    return isinstance(v, ast.Constant) and v.value is None


def _truth(av):
    if av is None:
        return None
    if av.kind == "const" and not av.maybe_none:
        try:
            return bool(av.data)
        except Exception:
            return None
    if av.kind in ("obj", "func", "net") and not av.maybe_none:
        return True
    return None


def _known_nonempty(it):
    if it.kind == "list":
        items, _ = it.data
        return items is not None and len(items) > 0
    if it.kind == "tuple":
        return len(it.data) > 0
    return False


def _fold(op, a, b):
    if isinstance(op, ast.Add):
        return a + b
    if isinstance(op, ast.Sub):
        return a - b
    if isinstance(op, ast.Mult):
        return a * b
    if isinstance(op, ast.Div):
        return a / b
    if isinstance(op, ast.FloorDiv):
        return a // b
    if isinstance(op, ast.Mod):
        return a % b
    if isinstance(op, ast.Pow):
        return a ** b
    return None


_BUILTINS = {
    "len", "int", "float", "abs", "min", "max", "sum", "round", "bool", "range", "zip", "enumerate",
    "reversed", "list", "tuple", "sorted", "iter", "map", "isinstance", "hasattr", "callable",
    "issubclass", "getattr", "setattr", "type", "print", "str", "repr", "dict", "set", "frozenset",
    "any", "all", "ValueError", "TypeError", "RuntimeError", "NotImplementedError",
    "AssertionError", "Exception", "KeyError", "IndexError", "DeprecationWarning", "format",
}

_NN_MODULE_METHODS = {
    "parameters", "buffers", "named_parameters", "children", "modules", "train", "eval", "to",
    "double", "float", "cuda", "cpu", "register_buffer", "register_parameter", "add_module",
    "state_dict", "load_state_dict", "_apply", "_load_from_state_dict", "apply", "zero_grad",
    "requires_grad_", "type", "extra_repr",
}

_EXT_BASE_ATTRS = {
    "torch.nn.Linear": {"weight": "param", "bias": "param", "in_features": "num", "out_features": "num"},
}

_CALLABLE_ATTRS = {"activation", "_activation", "scale_activation"}
