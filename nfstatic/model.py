"""Program model: modules, imports, classes (MRO), functions, attribute kinds.

"Analyse the resolved program, not text": every rule goes through this model to find out what
a name, an attribute or a call refers to.
"""

import ast
import hashlib
import os

from . import REPO


class AnalysisIncomplete(Exception):
    """An anchor vanished / unsupported construct: the run must exit 2, never 0 or 1."""


# --------------------------------------------------------------------------------------
# entities
# --------------------------------------------------------------------------------------


class ModuleInfo:
    def __init__(self, name, path, tree, src, is_pkg, root=None):
        self.name = name
        self.root = root or REPO
        self.path = path
        self.tree = tree
        self.src = src
        self.is_pkg = is_pkg
        self.imports = {}  # local name -> ('module', dotted) | ('symbol', dotted module, name)
        self.star_imports = []  # dotted modules
        self.functions = {}
        self.classes = {}
        self.assigns = {}  # module-level NAME = expr

    @property
    def relpath(self):
        return os.path.relpath(self.path, self.root)

    def __repr__(self):
        return "<module %s>" % self.name


class FuncInfo:
    def __init__(self, node, module, cls=None, outer=None):
        self.node = node
        self.module = module
        self.cls = cls
        self.outer = outer  # enclosing FuncInfo for nested defs / lambdas
        self.name = getattr(node, "name", "<lambda>")
        self.is_lambda = isinstance(node, ast.Lambda)
        decos = []
        for d in getattr(node, "decorator_list", []):
            if isinstance(d, ast.Name):
                decos.append(d.id)
            elif isinstance(d, ast.Attribute):
                decos.append(d.attr)
            else:
                decos.append("?")
        self.decorators = decos

    @property
    def qualname(self):
        if self.cls is not None:
            return "%s.%s" % (self.cls.name, self.name)
        if self.outer is not None:
            return "%s.<locals>.%s" % (self.outer.qualname, self.name)
        return self.name

    @property
    def fullname(self):
        return "%s:%s" % (self.module.relpath, self.qualname)

    @property
    def is_static(self):
        return "staticmethod" in self.decorators

    @property
    def is_classmethod(self):
        return "classmethod" in self.decorators

    @property
    def is_property(self):
        return "property" in self.decorators

    def params(self):
        """[(name, default_node_or_None)] for positional params, excluding self/cls."""
        a = self.node.args
        pos = list(a.posonlyargs) + list(a.args)
        defaults = [None] * (len(pos) - len(a.defaults)) + list(a.defaults)
        out = [(p.arg, d) for p, d in zip(pos, defaults)]
        if self.cls is not None and not self.is_static and not self.is_lambda and out:
            out = out[1:]
        for p, d in zip(a.kwonlyargs, a.kw_defaults):
            out.append((p.arg, d))
        return out

    def self_name(self):
        if self.cls is None or self.is_static or self.is_lambda:
            return None
        a = self.node.args
        pos = list(a.posonlyargs) + list(a.args)
        return pos[0].arg if pos else None

    def __repr__(self):
        return "<func %s>" % self.fullname


# attribute kinds
PARAM = "PARAM"
BUFFER = "BUFFER"  # extra: persistent bool
MODULE = "MODULE"  # extra: ClassInfo
MODULELIST = "MODULELIST"  # extra: list of element kinds (ClassInfo | ext str | None)
EXTMODULE = "EXTMODULE"  # extra: dotted external class name e.g. nn.Linear
FACTORY = "FACTORY"  # result of calling a constructor argument (unknown module)
PLAIN = "PLAIN"  # anything else; extra: value expr
PROPERTY = "PROPERTY"
METHOD = "METHOD"


class AttrInfo:
    def __init__(self, name, kind, cls, node=None, extra=None, func=None, cond=None):
        self.name = name
        self.kind = kind
        self.cls = cls  # defining class
        self.node = node  # the assignment / register_buffer call statement
        self.extra = extra
        self.func = func  # FuncInfo in which it is assigned
        self.value = None  # value expression
        self.alts = []  # other assignments of the same attribute in the constructor

    def __repr__(self):
        return "<attr %s.%s %s>" % (self.cls.name, self.name, self.kind)


class _DesugarLiteralLoops(ast.NodeTransformer):
    """`for x in (a, b): P; if t: S; break` + `else: E` over a written-out tuple / list is the
    if / else chain  x = a; P; if t: S  else: (x = b; P; if t: S  else: E).  Every engine then
    sees ordinary branches.  A literal loop without break that carries an `else` is the loop
    followed by the else block.  Other loops are left alone."""

    def visit_For(self, node):
        self.generic_visit(node)
        if not isinstance(node.iter, (ast.Tuple, ast.List)) or not (0 < len(node.iter.elts) <= 8) or any(isinstance(e, ast.Starred) for e in node.iter.elts):
            return node
        inner = [n for st in node.body for n in ast.walk(st)]
        # break / continue belonging to this loop (not to a nested one)
        def own(kind):
            out = []
            stack = list(node.body)
            while stack:
                n = stack.pop()
                if isinstance(n, kind):
                    out.append(n)
                if isinstance(n, (ast.For, ast.While, ast.FunctionDef, ast.AsyncFunctionDef, ast.Lambda, ast.ClassDef)):
                    continue
                stack.extend(ast.iter_child_nodes(n))
            return out

        breaks, conts = own(ast.Break), own(ast.Continue)
        if conts:
            return node
        if not breaks:
            if node.orelse:
                tail = node.orelse
                node.orelse = []
                return [node] + tail
            return node
        last = node.body[-1]
        if len(breaks) != 1 or not isinstance(last, ast.If) or last.orelse or not last.body or last.body[-1] is not breaks[0]:
            return node
        import copy

        chain = list(node.orelse)
        for elt in reversed(node.iter.elts):
            bind = ast.copy_location(ast.Assign(targets=[copy.deepcopy(node.target)], value=elt), node)
            for t in ast.walk(bind.targets[0]):
                if hasattr(t, "ctx"):
                    t.ctx = ast.Store()
            pre = [copy.deepcopy(st) for st in node.body[:-1]]
            taken = [copy.deepcopy(st) for st in last.body[:-1]] or [ast.copy_location(ast.Pass(), last)]
            test = copy.deepcopy(last.test)
            iff = ast.copy_location(ast.If(test=test, body=taken, orelse=chain), last)
            chain = [bind] + pre + [iff]
        return chain


class ClassInfo:
    def __init__(self, node, module):
        self.node = node
        self.module = module
        self.name = node.name
        self.methods = {}
        self.class_assigns = {}
        self.base_exprs = list(node.bases)
        self.bases = []  # ClassInfo | str (external dotted)
        self.subclasses = []
        self._mro = None
        self._attrs = None

    @property
    def fullname(self):
        return "%s:%s" % (self.module.relpath, self.name)

    def __repr__(self):
        return "<class %s>" % self.name

    def mro(self):
        if self._mro is None:
            self._mro = _c3(self)
        return self._mro

    def repo_mro(self):
        return [c for c in self.mro() if isinstance(c, ClassInfo)]

    def ext_bases(self):
        return [c for c in self.mro() if isinstance(c, str)]

    def is_subclass_of(self, other):
        if isinstance(other, ClassInfo):
            return other in self.mro()
        return any(
            (isinstance(c, ClassInfo) and c.name == other) or c == other for c in self.mro()
        )

    def lookup_method(self, name, after=None):
        """First definition of `name` in the MRO (optionally after class `after`)."""
        seq = self.repo_mro()
        if after is not None:
            seq = seq[seq.index(after) + 1 :]
        for c in seq:
            if name in c.methods:
                return c.methods[name]
        return None

    def all_subclasses(self):
        out = []
        stack = list(self.subclasses)
        while stack:
            c = stack.pop()
            if c not in out:
                out.append(c)
                stack.extend(c.subclasses)
        return out

    def is_nn_module(self):
        return any(isinstance(b, str) and b.startswith("torch.nn.") for b in self.mro())


def _c3(cls):
    def merge(seqs):
        res = []
        seqs = [list(s) for s in seqs if s]
        while seqs:
            for s in seqs:
                h = s[0]
                if not any(h in t[1:] for t in seqs):
                    break
            else:
                raise AnalysisIncomplete("inconsistent MRO for %s" % cls.name)
            res.append(h)
            seqs = [[x for x in s if x is not h and x != h] for s in seqs]
            seqs = [s for s in seqs if s]
        return res

    parents = []
    for b in cls.bases:
        if isinstance(b, ClassInfo):
            parents.append(b.mro())
        else:
            parents.append([b])
    return [cls] + merge(parents + [list(cls.bases)])


# --------------------------------------------------------------------------------------
# program
# --------------------------------------------------------------------------------------

EXTERNAL_ROOTS = {"torch", "numpy", "math", "warnings", "typing", "inspect", "matplotlib", "UMNN"}


class Program:
    def __init__(self, repo=None, package="nflows"):
        self.repo = repo or REPO
        self.package = package
        self.modules = {}
        self.digests = {}
        self._load()
        self._link()

    # -- loading ------------------------------------------------------------------------
    def _load(self):
        root = os.path.join(self.repo, self.package)
        if not os.path.isdir(root):
            raise AnalysisIncomplete("package directory %s missing" % root)
        for dirpath, dirnames, filenames in os.walk(root):
            dirnames[:] = sorted(d for d in dirnames if d != "__pycache__")
            for fn in sorted(filenames):
                if not fn.endswith(".py"):
                    continue
                path = os.path.join(dirpath, fn)
                rel = os.path.relpath(path, self.repo)[:-3].split(os.sep)
                is_pkg = rel[-1] == "__init__"
                if is_pkg:
                    rel = rel[:-1]
                name = ".".join(rel)
                with open(path, "rb") as f:
                    raw = f.read()
                self.digests[os.path.relpath(path, self.repo)] = hashlib.sha256(raw).hexdigest()
                src = raw.decode("utf-8")
                try:
                    tree = ast.parse(src, filename=path)
                except SyntaxError as e:
                    raise AnalysisIncomplete("syntax error in %s: %s" % (path, e))
                from .desugar import desugar_module

                # the module as written (for the rules about shared state and modes, which judge idioms the
                # front-end makes transparent to everything else)
                raw_tree = ast.parse(src, filename=path)
                for parent in ast.walk(raw_tree):
                    for child in ast.iter_child_nodes(parent):
                        child._parent = parent
                raw_tree._parent = None
                tree = desugar_module(tree)
                mod = ModuleInfo(name, path, tree, src, is_pkg, root=self.repo)
                mod.raw_tree = raw_tree
                self.modules[name] = mod
                self._index(mod)

    def _index(self, mod):
        for st in mod.tree.body:
            self._index_stmt(mod, st)
        # parent links for every node (used for diagnostics and statement lookup)
        for parent in ast.walk(mod.tree):
            for child in ast.iter_child_nodes(parent):
                child._parent = parent
        mod.tree._parent = None

    def _index_stmt(self, mod, st):
        if isinstance(st, ast.Import):
            for al in st.names:
                if al.asname:
                    mod.imports[al.asname] = ("module", al.name)
                else:
                    mod.imports[al.name.split(".")[0]] = ("module", al.name.split(".")[0])
        elif isinstance(st, ast.ImportFrom):
            base = st.module or ""
            if st.level:
                parts = mod.name.split(".")
                if not mod.is_pkg:
                    parts = parts[:-1]
                parts = parts[: len(parts) - (st.level - 1)]
                base = ".".join(parts + ([st.module] if st.module else []))
            for al in st.names:
                if al.name == "*":
                    mod.star_imports.append(base)
                else:
                    mod.imports[al.asname or al.name] = ("symbol", base, al.name)
        elif isinstance(st, ast.FunctionDef):
            mod.functions[st.name] = FuncInfo(st, mod)
        elif isinstance(st, ast.ClassDef):
            ci = ClassInfo(st, mod)
            mod.classes[st.name] = ci
            for b in st.body:
                if isinstance(b, ast.FunctionDef):
                    ci.methods[b.name] = FuncInfo(b, mod, cls=ci)
                elif isinstance(b, ast.Assign):
                    for t in b.targets:
                        if isinstance(t, ast.Name):
                            ci.class_assigns[t.id] = b.value
        elif isinstance(st, ast.Assign):
            for t in st.targets:
                if isinstance(t, ast.Name):
                    mod.assigns[t.id] = st.value
        elif isinstance(st, ast.If):
            # `if __name__ == "__main__":` blocks are not part of the library
            pass

    def _link(self):
        for mod in self.modules.values():
            for ci in mod.classes.values():
                for be in ci.base_exprs:
                    r = self.resolve_expr(mod, be)
                    if isinstance(r, ClassInfo):
                        ci.bases.append(r)
                        r.subclasses.append(ci)
                    elif isinstance(r, tuple) and r[0] == "ext":
                        ci.bases.append(r[1])
                    else:
                        ci.bases.append("?" + ast.unparse(be))

    # -- name resolution ------------------------------------------------------------------
    def module_attr(self, modname, attr, _seen=None):
        """Resolve `attr` looked up on module `modname`."""
        _seen = _seen or set()
        if (modname, attr) in _seen:
            return None
        _seen.add((modname, attr))
        root = modname.split(".")[0]
        if root != self.package:
            return ("ext", _canon_ext(modname + "." + attr))
        mod = self.modules.get(modname)
        if mod is None:
            return None
        if attr in mod.functions:
            return mod.functions[attr]
        if attr in mod.classes:
            return mod.classes[attr]
        if attr in mod.assigns:
            v = mod.assigns[attr]
            # alias of another name (AffineScalarTransform = AffineTransform)
            if isinstance(v, ast.Name):
                r = self.resolve_name(mod, v.id)
                if r is not None:
                    return r
            return ("const", v, mod)
        if attr in mod.imports:
            return self._resolve_import(mod.imports[attr], _seen)
        for sm in mod.star_imports:
            r = self.module_attr(sm, attr, _seen)
            if r is not None and not (isinstance(r, tuple) and r[0] == "ext" and sm.split(".")[0] == self.package):
                return r
        sub = modname + "." + attr
        if sub in self.modules:
            return self.modules[sub]
        return None

    def _resolve_import(self, imp, _seen=None):
        if imp[0] == "module":
            dotted = imp[1]
            if dotted.split(".")[0] == self.package:
                return self.modules.get(dotted)
            return ("ext", _canon_ext(dotted))
        _, base, name = imp
        if base.split(".")[0] != self.package:
            return ("ext", _canon_ext(base + "." + name))
        sub = base + "." + name
        r = self.module_attr(base, name, _seen)
        if r is None and sub in self.modules:
            return self.modules[sub]
        return r

    def resolve_name(self, mod, name):
        if name in mod.functions:
            return mod.functions[name]
        if name in mod.classes:
            return mod.classes[name]
        if name in mod.imports:
            return self._resolve_import(mod.imports[name])
        if name in mod.assigns:
            v = mod.assigns[name]
            if isinstance(v, ast.Name) and v.id != name:
                r = self.resolve_name(mod, v.id)
                if r is not None:
                    return r
            return ("const", v, mod)
        for sm in mod.star_imports:
            r = self.module_attr(sm, name)
            if r is not None:
                return r
        return None

    def resolve_expr(self, mod, expr):
        """Resolve a dotted Name/Attribute expression in module scope (no locals)."""
        if isinstance(expr, ast.Name):
            return self.resolve_name(mod, expr.id)
        if isinstance(expr, ast.Attribute):
            base = self.resolve_expr(mod, expr.value)
            return self.attr_of(base, expr.attr)
        return None

    def attr_of(self, base, attr):
        if base is None:
            return None
        if isinstance(base, ModuleInfo):
            return self.module_attr(base.name, attr)
        if isinstance(base, tuple) and base[0] == "ext":
            return ("ext", _canon_ext(base[1] + "." + attr))
        if isinstance(base, ClassInfo):
            m = base.lookup_method(attr)
            if m is not None:
                return m
            for c in base.repo_mro():
                if attr in c.class_assigns:
                    return ("const", c.class_assigns[attr], c.module)
            return None
        return None

    # -- convenience ----------------------------------------------------------------------
    def all_classes(self):
        for mod in self.modules.values():
            for ci in mod.classes.values():
                yield ci

    def all_functions(self):
        for mod in self.modules.values():
            for fi in mod.functions.values():
                yield fi
            for ci in mod.classes.values():
                for fi in ci.methods.values():
                    yield fi

    def find_class(self, name, module=None):
        hits = [
            c
            for c in self.all_classes()
            if c.name == name and (module is None or c.module.name == module)
        ]
        if len(hits) != 1:
            raise AnalysisIncomplete(
                "anchor class %s%s: %d matches" % (name, " in " + module if module else "", len(hits))
            )
        return hits[0]

    def find_function(self, module, name):
        mod = self.modules.get(module)
        if mod is None or name not in mod.functions:
            raise AnalysisIncomplete("anchor function %s.%s missing" % (module, name))
        return mod.functions[name]

    def find_method(self, clsname, name, module=None):
        c = self.find_class(clsname, module)
        m = c.lookup_method(name)
        if m is None:
            raise AnalysisIncomplete("anchor method %s.%s missing" % (clsname, name))
        return m

    def subclasses_of(self, base):
        return [c for c in self.all_classes() if base in c.mro()]

    # -- attribute kinds ------------------------------------------------------------------
    def attrs(self, cls):
        """Attribute table of `cls` (own constructor + inherited), name -> AttrInfo."""
        if cls._attrs is not None:
            return cls._attrs
        table = {}
        for c in reversed(cls.repo_mro()):
            for name, fi in c.methods.items():
                table[name] = AttrInfo(
                    name, PROPERTY if fi.is_property else METHOD, c, node=fi.node, func=fi
                )
            own = self._ctor_attrs(c)
            for name, ai in own.items():
                table[name] = ai
        cls._attrs = table
        return table

    def _ctor_attrs(self, c):
        out = {}
        init = c.methods.get("__init__")
        if init is None:
            return out
        todo = [init]
        seen = set()
        while todo:
            fi = todo.pop()
            if fi in seen:
                continue
            seen.add(fi)
            sn = fi.self_name()
            if sn is None:
                continue
            params = {p for p, _ in fi.params()}
            local_vals = _local_simple_values(fi.node)
            for node in ast.walk(fi.node):
                if isinstance(node, ast.Assign):
                    for t in node.targets:
                        tl = t.elts if isinstance(t, (ast.Tuple, ast.List)) else [t]
                        for tt in tl:
                            if (
                                isinstance(tt, ast.Attribute)
                                and isinstance(tt.value, ast.Name)
                                and tt.value.id == sn
                            ):
                                val = node.value if tt is t else None
                                ai = self._classify_attr(c, tt.attr, val, node, fi, params, local_vals)
                                if tt.attr in out:
                                    out[tt.attr].alts.append(ai)
                                    # a None placeholder is overridden by the real assignment
                                    if _is_none(out[tt.attr].value) and not _is_none(val):
                                        ai.alts = out[tt.attr].alts + [out[tt.attr]]
                                        out[tt.attr] = ai
                                else:
                                    out[tt.attr] = ai
                elif isinstance(node, ast.Call):
                    f = node.func
                    if (
                        isinstance(f, ast.Attribute)
                        and isinstance(f.value, ast.Name)
                        and f.value.id == sn
                    ):
                        if f.attr == "register_parameter" and len(node.args) >= 2 and isinstance(node.args[0], ast.Constant) and isinstance(node.args[0].value, str):
                            # self.register_parameter("name", nn.Parameter(t))
                            pv = node.args[1]
                            hops = 0
                            while isinstance(pv, ast.Name) and pv.id in local_vals and hops < 3:
                                pv = local_vals[pv.id]
                                hops += 1
                            ai = AttrInfo(node.args[0].value, PARAM, c, node=node, func=fi)
                            inner = pv.args[0] if isinstance(pv, ast.Call) and pv.args and isinstance(pv.func, (ast.Attribute, ast.Name)) and (pv.func.attr if isinstance(pv.func, ast.Attribute) else pv.func.id) == "Parameter" else pv
                            hops = 0
                            while isinstance(inner, ast.Name) and inner.id in local_vals and hops < 3:
                                inner = local_vals[inner.id]
                                hops += 1
                            ai.extra = inner
                            ai.value = pv
                            if node.args[0].value in out:
                                ai.alts = [out[node.args[0].value]] + out[node.args[0].value].alts
                            out[node.args[0].value] = ai
                        if f.attr == "register_buffer" and node.args:
                            nm = node.args[0]
                            if isinstance(nm, ast.Constant) and isinstance(nm.value, str):
                                persistent = True
                                for kw in node.keywords:
                                    if kw.arg == "persistent":
                                        persistent = not (
                                            isinstance(kw.value, ast.Constant)
                                            and kw.value.value is False
                                        )
                                        if not isinstance(kw.value, ast.Constant):
                                            persistent = None  # undecidable
                                if len(node.args) >= 3:
                                    a3 = node.args[2]
                                    persistent = not (
                                        isinstance(a3, ast.Constant) and a3.value is False
                                    )
                                ai = AttrInfo(nm.value, BUFFER, c, node=node, extra=persistent, func=fi)
                                ai.value = node.args[1] if len(node.args) > 1 else None
                                if nm.value in out:
                                    ai.alts = [out[nm.value]] + out[nm.value].alts
                                out[nm.value] = ai
                        elif f.attr in c.methods or c.lookup_method(f.attr) is not None:
                            m = c.lookup_method(f.attr)
                            # a helper of this class or of a base class, called by this constructor on self
                            if m is not None and m.name != "__init__":
                                todo.append(m)
        return out

    def _classify_attr(self, c, name, val, node, fi, params, local_vals):
        ai = AttrInfo(name, PLAIN, c, node=node, func=fi)
        ai.value = val
        if val is None:
            return ai
        v = val
        # follow one level of simple local (x = nn.Parameter(...); self.x = x)
        hops = 0
        while isinstance(v, ast.Name) and v.id in local_vals and hops < 3:
            v = local_vals[v.id]
            hops += 1
        if isinstance(v, ast.Call):
            callee = self.resolve_expr(c.module, v.func)
            if isinstance(callee, tuple) and callee[0] == "ext":
                dotted = callee[1]
                if dotted == "torch.nn.Parameter":
                    ai.kind = PARAM
                    ai.extra = v.args[0] if v.args else None
                elif dotted == "torch.nn.Buffer":
                    # self.x = nn.Buffer(t, persistent=..) registers a buffer (torch >= 2.5); any method applied
                    # to the result (nn.Buffer(t).to(..)) yields a plain tensor and is classified as such
                    ai.kind = BUFFER
                    pers = next((k.value for k in v.keywords if k.arg == "persistent"), v.args[1] if len(v.args) > 1 else None)
                    ai.extra = not (isinstance(pers, ast.Constant) and pers.value is False)
                    ai.value = v.args[0] if v.args else None
                elif dotted in ("torch.nn.ModuleList",):
                    ai.kind = MODULELIST
                    ai.extra = self._modulelist_elems(c, v, local_vals)
                elif dotted.startswith("torch.nn.") and dotted.split(".")[-1][:1].isupper():
                    ai.kind = EXTMODULE
                    ai.extra = dotted
            elif isinstance(callee, ClassInfo):
                if callee.is_nn_module():
                    ai.kind = MODULE
                    ai.extra = callee
                else:
                    ai.kind = PLAIN
                    ai.extra = callee  # plain python object of a repository class
            elif callee is None and isinstance(v.func, ast.Name) and v.func.id in params:
                ai.kind = FACTORY
                ai.extra = v.func.id
        return ai

    def _modulelist_elems(self, c, call, local_vals):
        elems = []
        if not call.args:
            return elems
        a = call.args[0]
        if isinstance(a, ast.Name) and a.id in local_vals:
            a = local_vals[a.id]
        exprs = []
        if isinstance(a, (ast.List, ast.Tuple)):
            exprs = list(a.elts)
        elif isinstance(a, ast.ListComp):
            exprs = [a.elt]
        else:
            return [None]
        for e in exprs:
            if isinstance(e, ast.Name) and e.id in local_vals:
                e = local_vals[e.id]
            if isinstance(e, ast.Call):
                r = self.resolve_expr(c.module, e.func)
                if isinstance(r, ClassInfo):
                    elems.append(r)
                elif isinstance(r, tuple) and r[0] == "ext":
                    elems.append(r[1])
                else:
                    elems.append(None)
            else:
                elems.append(None)
        return elems


def _is_none(v):
    return isinstance(v, ast.Constant) and v.value is None


def _local_simple_values(fnode):
    """name -> value expr for locals assigned exactly once by a plain `name = expr`."""
    counts = {}
    vals = {}
    for node in ast.walk(fnode):
        if isinstance(node, ast.Assign) and len(node.targets) == 1:
            t = node.targets[0]
            if isinstance(t, ast.Name):
                counts[t.id] = counts.get(t.id, 0) + 1
                vals[t.id] = node.value
        elif isinstance(node, (ast.AugAssign, ast.For)):
            t = node.target
            for n in ast.walk(t):
                if isinstance(n, ast.Name):
                    counts[n.id] = counts.get(n.id, 0) + 2
    return {k: v for k, v in vals.items() if counts.get(k) == 1}


_EXT_CANON = {
    "torch.nn.functional": "torch.nn.functional",
    "numpy": "numpy",
}


def _canon_ext(dotted):
    return dotted


def stmt_of(node):
    """Smallest enclosing statement of an AST node."""
    n = node
    while n is not None and not isinstance(n, ast.stmt):
        n = getattr(n, "_parent", None)
    return n


def func_of(node):
    n = getattr(node, "_parent", None)
    while n is not None and not isinstance(n, (ast.FunctionDef, ast.Lambda)):
        n = getattr(n, "_parent", None)
    return n


def norm_text(node):
    """Normalised statement text used as a stable key (no line numbers)."""
    try:
        return " ".join(ast.unparse(node).split())
    except Exception:
        return "<%s>" % type(node).__name__


_PROGRAM_CACHE = {}


def load_program(repo=None):
    repo = repo or REPO
    p = _PROGRAM_CACHE.get(repo)
    if p is None:
        p = Program(repo)
        _PROGRAM_CACHE[repo] = p
    return p
