"""Monomial normal form of element-wise expressions (DESIGN 8.8).

An expression built from products, quotients, powers with constant exponents, exponentials and
full event reductions is brought to

    coefficient * prod_i  atom_i ** k_i

where atoms are canonical texts: plain sub-expressions (sums with ordered signed terms),
`exp[<s>]` for torch.exp(c * s) (the constant c goes into the exponent k), and
`sum[<monomial>|nb]` for sum_except_batch(<monomial>, num_batch_dims=nb) / .sum over the event
axes (the inner coefficient is pulled out of the reduction).  So

    -0.5 * sum_except_batch(((x - m) * torch.exp(-s)) ** 2, num_batch_dims=1)
    -sum_except_batch(torch.square((x - m) / torch.exp(s)), 1) / 2
    sum_except_batch((x - m).pow(2) * torch.exp(-2 * s), num_batch_dims=1) * -0.5

have one and the same normal form  -1/2 * sum[(x - m)^2 exp[s]^-2 | 1].
"""

import ast
from fractions import Fraction

from .astutil import const_number, signed_terms
from .model import norm_text


class NotMonomial(Exception):
    pass


def _frac(v):
    return Fraction(v).limit_denominator(10 ** 9)


def _leaf_text(e):
    """atom of a non-product: ("lin", ((monomial items, coefficient), ...)) for a sum, else ("leaf", text)"""
    if isinstance(e, ast.BinOp) and isinstance(e.op, (ast.Add, ast.Sub)):
        parts = []
        for s, t in signed_terms(e):
            c, m = monomial(t)
            parts.append((freeze(m), c * s))
        parts.sort(key=repr)
        return ("lin", tuple(parts))
    return ("leaf", norm_text(e))


def freeze(m):
    return tuple(sorted(m.items(), key=repr))


def _mul(a, b, sign=1):
    out = dict(a)
    for k, v in b.items():
        out[k] = out.get(k, 0) + sign * v
        if out[k] == 0:
            del out[k]
    return out


def _call_parts(c):
    f = c.func
    if isinstance(f, ast.Attribute):
        is_mod = isinstance(f.value, ast.Name) and f.value.id in ("torch", "F", "np", "torchutils", "math")
        return f.attr, (list(c.args) if is_mod else [f.value] + list(c.args))
    if isinstance(f, ast.Name):
        return f.id, list(c.args)
    return "", list(c.args)


def monomial(e, depth=0):
    """(coefficient, {atom text: exponent})"""
    if depth > 60:
        raise NotMonomial("too deep")
    v = const_number(e)
    if v is not None:
        return _frac(v), {}
    if isinstance(e, ast.UnaryOp) and isinstance(e.op, ast.USub):
        c, m = monomial(e.operand, depth + 1)
        return -c, m
    if isinstance(e, ast.UnaryOp) and isinstance(e.op, ast.UAdd):
        return monomial(e.operand, depth + 1)
    if isinstance(e, ast.BinOp):
        if isinstance(e.op, ast.Mult):
            c1, m1 = monomial(e.left, depth + 1)
            c2, m2 = monomial(e.right, depth + 1)
            return c1 * c2, _mul(m1, m2)
        if isinstance(e.op, ast.Div):
            c1, m1 = monomial(e.left, depth + 1)
            c2, m2 = monomial(e.right, depth + 1)
            if c2 == 0:
                raise NotMonomial("division by zero")
            return c1 / c2, _mul(m1, m2, -1)
        if isinstance(e.op, ast.Pow):
            k = const_number(e.right)
            if k is not None and float(k).is_integer() and abs(k) <= 8:
                c, m = monomial(e.left, depth + 1)
                return c ** int(k), {a: x * int(k) for a, x in m.items()}
        return Fraction(1), {_leaf_text(e): 1}
    if isinstance(e, ast.Call):
        last, ops = _call_parts(e)
        if last == "square" and len(ops) == 1:
            c, m = monomial(ops[0], depth + 1)
            return c * c, {a: 2 * x for a, x in m.items()}
        if last == "pow" and len(ops) == 2:
            k = const_number(ops[1])
            if k is not None and float(k).is_integer() and abs(k) <= 8:
                c, m = monomial(ops[0], depth + 1)
                return c ** int(k), {a: x * int(k) for a, x in m.items()}
        if last == "reciprocal" and len(ops) == 1:
            c, m = monomial(ops[0], depth + 1)
            return 1 / c, {a: -x for a, x in m.items()}
        if last == "exp" and len(ops) == 1:
            try:
                c, m = monomial(ops[0], depth + 1)
            except NotMonomial:
                return Fraction(1), {("exp", (("leaf", norm_text(ops[0])), 1)): 1}
            if m and c.denominator == 1 and abs(c) <= 8:
                return Fraction(1), {("exp", freeze(m)): int(c)}
            if not m:
                return Fraction(1), {("exp", (("const", float(c)), 1)): 1}
            return Fraction(1), {("exp", (("leaf", norm_text(ops[0])), 1)): 1}
        if last in ("sum_except_batch", "sum"):
            nb = None
            inner = ops[0] if ops else None
            if last == "sum_except_batch":
                nbn = next((k.value for k in e.keywords if k.arg == "num_batch_dims"), ops[1] if len(ops) > 1 else None)
                nb = const_number(nbn) if nbn is not None else 1
                tag = "nb=%s" % nb
            else:
                dimn = next((k.value for k in e.keywords if k.arg in ("dim", "axis")), ops[1] if len(ops) > 1 else None)
                tag = "dim=%s" % (norm_text(dimn) if dimn is not None else "all")
            if inner is None:
                raise NotMonomial("empty reduction")
            c, m = monomial(inner, depth + 1)
            return c, {("sum", freeze(m), tag): 1}
        if last in ("float", "double", "contiguous", "clone") and len(ops) == 1:
            return monomial(ops[0], depth + 1)
    return Fraction(1), {_leaf_text(e): 1}


def show_atom(a):
    if a[0] == "leaf":
        return a[1]
    if a[0] == "const":
        return "%g" % a[1]
    if a[0] == "lin":
        return "(" + " ".join(("+" if c > 0 else "-") + ("" if abs(c) == 1 else "%g*" % abs(float(c))) + show_mono(dict(m)) for m, c in a[1]) + ")"
    if a[0] == "exp":
        return "exp[%s]" % show_mono(dict(a[1]) if a[1] and isinstance(a[1][0], tuple) and len(a[1][0]) == 2 and isinstance(a[1][0][0], tuple) else {a[1][0]: a[1][1]})
    if a[0] == "sum":
        return "sum[%s|%s]" % (show_mono(dict(a[1])), a[2])
    return repr(a)


def show_mono(m):
    if isinstance(m, tuple):
        m = dict(m)
    return " ".join("%s%s" % (show_atom(a), "" if k == 1 else "^%d" % k) for a, k in sorted(m.items(), key=repr)) or "1"


def show_term(c, m):
    return ("%+g * " % float(c)) + show_mono(m)


def additive_terms(e):
    """[(coefficient, monomial dict)] of a sum, with the sign folded into the coefficient"""
    out = []
    for s, t in signed_terms(e):
        c, m = monomial(t)
        out.append((c * s, m))
    return out
