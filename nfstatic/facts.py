"""Supported facts: value facts the lattices cannot see, each with a statically re-checked
support.  If the support vanishes the fact is withdrawn and the dependent site is reported.
"""

import ast

from .model import norm_text


def _raises_unless_positive_int(p, cls, param):
    """`__init__` of cls raises unless is_positive_int(<param>) -- before anything else runs."""
    init = cls.methods.get("__init__")
    if init is None:
        return False
    for st in init.node.body:
        if isinstance(st, ast.If) and any(isinstance(s, ast.Raise) for s in st.body):
            t = st.test
            if isinstance(t, ast.UnaryOp) and isinstance(t.op, ast.Not) and isinstance(t.operand, ast.Call):
                c = t.operand
                r = p.resolve_expr(cls.module, c.func)
                if getattr(r, "name", None) == "is_positive_int" and c.args and isinstance(c.args[0], ast.Name) and c.args[0].id == param:
                    return True
    return False


def loop_nonempty(p, func, fornode):
    """Reason string if the `for` loop provably runs at least once, else None."""
    # Fact 1: HouseholderSequence._apply_transforms iterates over the rows of q_vectors, and
    # every caller in the class passes self.q_vectors (or a row-permutation of it), which has
    # num_transforms >= 1 rows because the constructor raises unless is_positive_int(num_transforms).
    if func.cls is not None and func.cls.name == "HouseholderSequence" and func.name == "_apply_transforms":
        names = {n.id for n in ast.walk(fornode.iter) if isinstance(n, ast.Name)}
        if "q_vectors" in names and _raises_unless_positive_int(p, func.cls, "num_transforms"):
            # every call site inside the class passes (a reindexing of) self.q_vectors
            ok = True
            for m in func.cls.methods.values():
                for n in ast.walk(m.node):
                    if isinstance(n, ast.Call) and isinstance(n.func, ast.Attribute) and n.func.attr == "_apply_transforms":
                        arg = n.args[1] if len(n.args) >= 2 else None
                        # a local bound once to (a re-ordering of) self.q_vectors stands for it
                        hops = 0
                        while isinstance(arg, ast.Name) and hops < 3:
                            defs = [a.value for a in ast.walk(m.node) if isinstance(a, ast.Assign) and any(isinstance(t, ast.Name) and t.id == arg.id for t in a.targets)]
                            arg = defs[0] if len(defs) == 1 else None
                            hops += 1
                        if arg is None or "self.q_vectors" not in norm_text(arg):
                            ok = False
            if ok:
                return "HouseholderSequence: q_vectors has num_transforms >= 1 rows (constructor guard)"
    return None
