"""nfstatic -- repository-specific static analysis of bayesiains/nflows.

Everything in this package works on the syntax trees of /repo/nflows (read on every run),
never imports torch or nflows and never executes repository code.
"""

import os

REPO = os.environ.get("NFSTATIC_REPO", "/repo")
VERIF = os.path.dirname(os.path.dirname(os.path.abspath(__file__)))
