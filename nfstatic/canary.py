"""Canaries: tiny synthetic packages on which a rule must fire (bad) / stay silent (good).

They keep expected-count-zero rules from passing vacuously.  Each canary is a directory
`canaries/<name>/{bad,good}/nflows/...` analysed with the same rule code as /repo.
"""

import os

from .model import Program

HERE = os.path.join(os.path.dirname(os.path.abspath(__file__)), "canaries")

# property -> [(canary name, callable(program) -> list of findings, expected rule id)]
REGISTRY = {}


def register(prop, name, runner, rule):
    REGISTRY.setdefault(prop, []).append((name, runner, rule))


def run_for(prop, tier):
    out = []
    for name, runner, rule in REGISTRY.get(prop, []):
        for variant, want in (("bad", True), ("good", False)):
            d = os.path.join(HERE, name, variant)
            if not os.path.isdir(d):
                out.append({"name": "%s/%s" % (name, variant), "ok": False, "why": "canary directory missing"})
                continue
            try:
                prog = Program(repo=d)
                fs = [f for f in runner(prog) if f.rule == rule]
            except Exception as e:  # a canary that cannot be analysed is a broken check
                out.append({"name": "%s/%s" % (name, variant), "ok": False, "why": "%s: %s" % (type(e).__name__, e)})
                continue
            fired = bool(fs)
            ok = fired == want
            out.append({"name": "%s/%s" % (name, variant), "rule": rule, "ok": ok, "fired": fired, "why": "" if ok else ("rule %s did not fire on the positive example" % rule if want else "rule %s fired on the passing twin: %s" % (rule, fs[0]))})
    return out
