"""setup_cmd: nothing to build; parse the tree once and make sure the model loads."""
import os
import sys

from .model import load_program, AnalysisIncomplete


def main():
    try:
        p = load_program()
    except AnalysisIncomplete as e:
        print("ANALYSIS-INCOMPLETE %s" % e)
        return 2
    print("nfstatic: parsed %d modules of %s" % (len(p.modules), p.repo))
    return 0


if __name__ == "__main__":
    rc = main()
    sys.stdout.flush()
    os._exit(rc)
