"""Case analysis on the rank of an argument (DESIGN 8.9).

Code that serves 2-D and 4-D inputs tells them apart in many spellings -- `x.dim() == 4`,
`len(x.shape) == 2`, `x.ndim > 2`, the truth of a starred remainder `b, c, *spatial = x.shape`.
`rank_decider(name, r)` returns a function for symexp.paths_of's "__decide__" hook that answers
such a test for rank r (True / False) and leaves every other test alone (None), so that a rule
can read the paths of each rank separately instead of matching the spelling of the test.
"""

import ast

from .astutil import const_number
from .model import norm_text


class _No(Exception):
    pass


_EW_CALLS = {"exp", "log", "abs", "neg", "sigmoid", "tanh", "sqrt", "softplus", "relu", "clone", "contiguous", "float", "double", "detach", "clamp", "square", "log1p", "reciprocal", "to", "type_as"}


def _low_rank(e, r, depth=0):
    """an operand that broadcasts against a rank-r tensor without raising the rank: a constant, a scalar
    attribute / name, or a view / reshape to at most r written-out sizes"""
    if const_number(e) is not None or isinstance(e, (ast.Name, ast.Attribute)):
        return True
    if isinstance(e, ast.Call) and isinstance(e.func, ast.Attribute) and e.func.attr in ("view", "reshape"):
        args = e.args[0].elts if len(e.args) == 1 and isinstance(e.args[0], (ast.Tuple, ast.List)) else e.args
        return not any(isinstance(a, ast.Starred) for a in args) and len(args) <= r
    if isinstance(e, ast.UnaryOp):
        return _low_rank(e.operand, r, depth + 1)
    if isinstance(e, ast.BinOp) and depth < 6:
        return _low_rank(e.left, r, depth + 1) and _low_rank(e.right, r, depth + 1)
    return False


def _ranked(e, x, r, depth=0):
    """does the tensor expression have the rank of x? (x itself, or x combined element-wise with operands
    that do not raise the rank)"""
    if norm_text(e) == x:
        return True
    if depth > 8:
        return False
    if isinstance(e, ast.BinOp) and isinstance(e.op, (ast.Add, ast.Sub, ast.Mult, ast.Div)):
        a, b = _ranked(e.left, x, r, depth + 1), _ranked(e.right, x, r, depth + 1)
        return (a and (b or _low_rank(e.right, r))) or (b and _low_rank(e.left, r))
    if isinstance(e, ast.UnaryOp):
        return _ranked(e.operand, x, r, depth + 1)
    if isinstance(e, ast.Call):
        f = e.func
        name = f.attr if isinstance(f, ast.Attribute) else (f.id if isinstance(f, ast.Name) else "")
        if name in _EW_CALLS:
            if isinstance(f, ast.Attribute) and not (isinstance(f.value, ast.Name) and f.value.id in ("torch", "F")):
                return _ranked(f.value, x, r, depth + 1)
            return bool(e.args) and _ranked(e.args[0], x, r, depth + 1)
    return False


def _val(e, x, r):
    v = const_number(e)
    if v is not None:
        return v
    if isinstance(e, ast.Call):
        f = e.func
        if isinstance(f, ast.Attribute) and f.attr in ("dim", "ndimension") and not e.args and _ranked(f.value, x, r):
            return r
        if isinstance(f, ast.Name) and f.id == "len" and len(e.args) == 1:
            s = _val(e.args[0], x, r)
            if isinstance(s, list):
                return len(s)
            raise _No()
        if isinstance(f, ast.Attribute) and f.attr == "size" and not e.args and _ranked(f.value, x, r):
            return [None] * r
        if isinstance(f, ast.Name) and f.id == "__rest__" and len(e.args) == 2 and const_number(e.args[1]) is not None:
            s = _val(e.args[0], x, r)
            if isinstance(s, list):
                k = int(const_number(e.args[1]))
                if len(s) < k:
                    raise _No()
                return s[k:]
        if isinstance(f, ast.Name) and f.id in ("list", "tuple") and len(e.args) == 1:
            return _val(e.args[0], x, r)
        raise _No()
    if isinstance(e, ast.Attribute):
        if e.attr == "ndim" and _ranked(e.value, x, r):
            return r
        if e.attr == "shape" and _ranked(e.value, x, r):
            return [None] * r
        raise _No()
    if isinstance(e, ast.Subscript) and isinstance(e.slice, ast.Slice):
        s = _val(e.value, x, r)
        if isinstance(s, list):
            lo = const_number(e.slice.lower) if e.slice.lower is not None else None
            hi = const_number(e.slice.upper) if e.slice.upper is not None else None
            if (e.slice.lower is None or lo is not None) and (e.slice.upper is None or hi is not None) and e.slice.step is None:
                return s[slice(None if lo is None else int(lo), None if hi is None else int(hi))]
        raise _No()
    if isinstance(e, (ast.List, ast.Tuple)):
        return [_val(v, x, r) for v in e.elts]
    if isinstance(e, ast.BinOp) and isinstance(e.op, (ast.Add, ast.Sub)):
        a, b = _val(e.left, x, r), _val(e.right, x, r)
        if isinstance(a, (int, float)) and isinstance(b, (int, float)):
            return a + b if isinstance(e.op, ast.Add) else a - b
    raise _No()


def _truth(e, x, r):
    if isinstance(e, ast.UnaryOp) and isinstance(e.op, ast.Not):
        return not _truth(e.operand, x, r)
    if isinstance(e, ast.BoolOp):
        vals = [_truth(v, x, r) for v in e.values]
        return all(vals) if isinstance(e.op, ast.And) else any(vals)
    if isinstance(e, ast.Compare) and len(e.ops) == 1:
        a, b = _val(e.left, x, r), _val(e.comparators[0], x, r)
        op = e.ops[0]
        if isinstance(op, (ast.In, ast.NotIn)):
            if isinstance(b, list) and all(isinstance(v, (int, float)) for v in b) and isinstance(a, (int, float)):
                return (a in b) == isinstance(op, ast.In)
            raise _No()
        if isinstance(a, (int, float)) and isinstance(b, (int, float)):
            table = {ast.Eq: a == b, ast.NotEq: a != b, ast.Lt: a < b, ast.LtE: a <= b, ast.Gt: a > b, ast.GtE: a >= b}
            if type(op) in table:
                return table[type(op)]
        raise _No()
    v = _val(e, x, r)
    if isinstance(v, list):
        return len(v) > 0
    if isinstance(v, (int, float)):
        return bool(v)
    raise _No()


def rank_decider(x, r):
    def decide(et):
        try:
            return _truth(et, x, r)
        except _No:
            return None

    return decide


def has_rank_tests(fnode, x, ranks=(2, 4)):
    """does some `if` of the function depend on the rank of x?"""
    d = [rank_decider(x, r) for r in ranks]
    for n in ast.walk(fnode):
        if isinstance(n, ast.If):
            if any(f(n.test) is not None for f in d):
                return True
            # a test on a local that holds a starred remainder / a shape slice: decided after expansion
            if isinstance(n.test, ast.Name) or (isinstance(n.test, ast.UnaryOp) and isinstance(n.test.operand, ast.Name)):
                nm = n.test.id if isinstance(n.test, ast.Name) else n.test.operand.id
                for a in ast.walk(fnode):
                    if isinstance(a, ast.Assign) and any(isinstance(t, (ast.Tuple, ast.List)) and any(isinstance(e, ast.Starred) and isinstance(e.value, ast.Name) and e.value.id == nm for e in t.elts) for t in a.targets):
                        return True
    return False
