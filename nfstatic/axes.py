"""Axis-layout algebra for image code paths (DESIGN 8.9, rule BM-ROWS).

A tensor is described by where the *original* axes of the function's 4-D arguments sit in its
memory order: a layout is a tuple of groups, one group per tensor axis, each group the ordered
tuple of atoms (original axes) merged into that axis.  `inputs` of shape [B, C, H, W] is

    ((B,), (C,), (H,), (W,))

`.permute(0, 2, 3, 1)` reorders the groups, `.reshape(-1, C)` re-partitions the flattened atom
sequence (B, H, W, C) into ((B, H, W), (C,)) -- legal because the named size C is the size of the
trailing atom -- whereas `.reshape(B, C, H, W)` of that tensor names the sizes (B)(C)(H)(W) over
the atom order B, H, W, C: the second axis would have size C but hold the H axis' elements, i.e.
memory is reinterpreted and values land on other pixels / channels / items.  That is a Mismatch.

The evaluator works on the expanded return expressions of nfstatic.symexp (locals and private
helpers inlined), so it does not care how the code is split over statements and helpers.
"""

import ast

from .astutil import const_number
from .model import norm_text


class Mismatch(Exception):
    def __init__(self, msg, node=None):
        Exception.__init__(self, msg)
        self.msg = msg
        self.node = node


class Unknown(Exception):
    pass


WILD = "WILD"

ELEMENTWISE_METHODS = {
    "contiguous", "clone", "float", "double", "half", "to", "type", "detach", "log", "exp", "abs", "neg", "sigmoid", "tanh",
    "sqrt", "pow", "clamp", "log1p", "reciprocal", "square", "type_as", "requires_grad_", "cpu", "cuda",
}
ELEMENTWISE_FUNCS = {"log", "exp", "abs", "neg", "sigmoid", "tanh", "sqrt", "softplus", "relu", "logsigmoid", "clamp", "square", "log1p"}
REDUCTIONS = {"sum", "mean", "prod", "logsumexp", "amax", "amin"}
# callees applied row by row to [N, features] / image tensors; result shaped like the first tensor argument
ROW_CALLEE_ATTRS = {"forward", "inverse", "forward_no_cache", "inverse_no_cache", "inverse_transform", "transformer", "_piecewise_cdf", "_elementwise_forward", "_elementwise_inverse"}


def show(layout):
    return "[" + ", ".join("(" + "*".join(a[0] for a in g) + ")" if len(g) != 1 else g[0][0] for g in layout) + "]"


class AxisEval:
    """env: name -> layout.  An atom is (label, size symbol, splittable?)."""

    def __init__(self, env):
        self.env = dict(env)
        self.row_calls = []  # (call node, [layouts of its tensor arguments])
        self.reduced = []  # (operation, atoms reduced away)

    # -- sizes ----------------------------------------------------------------------------
    def sizes_of(self, e):
        """WILD, or the list of size symbols whose product the expression denotes"""
        v = const_number(e)
        if v is not None:
            if v == -1:
                return WILD
            if v == 1:
                return []
            return [("const", int(v))]
        if isinstance(e, ast.BinOp) and isinstance(e.op, ast.Mult):
            a, b = self.sizes_of(e.left), self.sizes_of(e.right)
            if a is WILD or b is WILD:
                raise Unknown("product with -1")
            return a + b
        base, idx = None, None
        if isinstance(e, ast.Call) and isinstance(e.func, ast.Name) and e.func.id == "__component__" and len(e.args) == 2:
            inner, k = e.args[0], const_number(e.args[1])
            if k is not None and isinstance(inner, ast.Attribute) and inner.attr == "shape":
                base, idx = inner.value, int(k)
            elif k is not None and isinstance(inner, ast.Call) and isinstance(inner.func, ast.Attribute) and inner.func.attr == "size" and not inner.args:
                base, idx = inner.func.value, int(k)
        elif isinstance(e, ast.Subscript) and isinstance(e.value, ast.Attribute) and e.value.attr == "shape" and const_number(e.slice) is not None:
            base, idx = e.value.value, int(const_number(e.slice))
        elif isinstance(e, ast.Subscript) and isinstance(e.value, ast.Call) and isinstance(e.value.func, ast.Attribute) and e.value.func.attr == "size" and not e.value.args and const_number(e.slice) is not None:
            base, idx = e.value.func.value, int(const_number(e.slice))
        elif isinstance(e, ast.Call) and isinstance(e.func, ast.Attribute) and e.func.attr == "size" and len(e.args) == 1 and const_number(e.args[0]) is not None:
            base, idx = e.func.value, int(const_number(e.args[0]))
        if base is not None:
            lay = self.ev(base)
            if not (-len(lay) <= idx < len(lay)):
                raise Mismatch("`%s` reads axis %d of a tensor with %d axes %s" % (norm_text(e)[:50], idx, len(lay), show(lay)), e)
            return [a[1] for a in lay[idx]]
        return [("?", norm_text(e)[:40])]

    def _expand_shape_args(self, rest):
        """x.reshape(y.shape) / x.reshape(*y.shape) / x.view(y.size()): the sizes of y's axes one by one"""
        out = []
        for a in rest:
            inner = a.value if isinstance(a, ast.Starred) else a
            base = None
            if isinstance(inner, ast.Attribute) and inner.attr == "shape":
                base = inner.value
            elif isinstance(inner, ast.Call) and isinstance(inner.func, ast.Attribute) and inner.func.attr == "size" and not inner.args and not inner.keywords:
                base = inner.func.value
            if base is None or not (isinstance(a, ast.Starred) or len(rest) == 1):
                out.append(a)
                continue
            lay = self.ev(base)
            for i in range(len(lay)):
                out.append(ast.Subscript(value=ast.Attribute(value=base, attr="shape", ctx=ast.Load()), slice=ast.Constant(value=i), ctx=ast.Load()))
        return out

    # -- regrouping -----------------------------------------------------------------------
    def regroup(self, layout, args, node):
        atoms = [a for g in layout for a in g]
        specs = [self.sizes_of(a) for a in args]
        if sum(1 for s in specs if s is WILD) > 1:
            raise Unknown("two -1 sizes")
        for s in specs:
            if s is not WILD and any(x[0] in ("?", "const") for x in s):
                # an unnamed size: cannot tell which atoms it spans
                raise Unknown("size `%s` is not a product of named axis sizes" % (s,))
        what = "`%s` of a tensor laid out as %s" % (norm_text(node)[:70] if len(norm_text(node)) < 70 else "." + (node.func.attr if isinstance(node.func, ast.Attribute) else norm_text(node.func)) + "(" + ", ".join(norm_text(a)[:30] for a in args) + ")", show(layout))

        def take(spec, from_left):
            need = sorted(map(repr, spec))
            k = len(spec)
            if k == 0:
                return ()
            if k > len(atoms):
                raise Mismatch("%s names more axis sizes than there are axes left" % what, node)
            chunk = atoms[:k] if from_left else atoms[-k:]
            if sorted(repr(a[1]) for a in chunk) == need:
                if from_left:
                    del atoms[:k]
                else:
                    del atoms[-k:]
                return tuple(chunk)
            # a composite axis of unknown factorisation (the parameters' channel axis) may be split
            a = atoms[0] if from_left else atoms[-1]
            if k == 1 and a[2]:
                part = (a[0] + "/" + _sz(spec[0]), spec[0], False)
                rest = (a[0] + "%" + _sz(spec[0]), ("quot", a[1], spec[0]), True)
                if from_left:
                    atoms[0] = rest
                else:
                    atoms[-1] = rest
                return (part,)
            got = "*".join(x[0] for x in chunk)
            raise Mismatch("%s: the axis of size %s would be filled from the elements of axis %s -- a reshape cannot move axes; the data is reinterpreted (values land on other pixels / channels / batch items). A permute is needed before this reshape" % (what, "*".join(_sz(x) for x in spec), got), node)

        left, right = [], []
        i = 0
        while i < len(specs) and specs[i] is not WILD:
            left.append(take(specs[i], True))
            i += 1
        if i == len(specs):
            if atoms:
                raise Mismatch("%s leaves axes %s unaccounted for" % (what, "*".join(a[0] for a in atoms)), node)
            return tuple(left)
        j = len(specs) - 1
        while j > i:
            right.append(take(specs[j], False))
            j -= 1
        return tuple(left) + (tuple(atoms),) + tuple(reversed(right))

    # -- expressions ------------------------------------------------------------------------
    def ev(self, e):
        if isinstance(e, ast.Name):
            if e.id in self.env:
                return self.env[e.id]
            raise Unknown("name %s" % e.id)
        if isinstance(e, ast.IfExp) and hasattr(self, "py") and hasattr(self, "_truth"):
            # the evaluators that know Python values decide the test; the layout is the chosen arm's
            return self.ev(e.body if self._truth(self.py(e.test)) else e.orelse)
        if isinstance(e, ast.UnaryOp):
            return self.ev(e.operand)
        if isinstance(e, ast.BinOp):
            try:
                a = self.ev(e.left)
            except Unknown:
                a = None
            try:
                b = self.ev(e.right)
            except Unknown:
                b = None
            if a is None and b is None:
                raise Unknown("binary operation of unknowns")
            if a is not None and b is not None and len(a) != len(b):
                return a if len(a) > len(b) else b
            return a if a is not None else b
        if isinstance(e, ast.Call):
            return self.call(e)
        if isinstance(e, ast.Subscript):
            lay = self.ev(e.value)
            idx = list(e.slice.elts) if isinstance(e.slice, ast.Tuple) else [e.slice]
            if any(isinstance(i, ast.Constant) and i.value is Ellipsis for i in idx):
                k = next(n for n, i in enumerate(idx) if isinstance(i, ast.Constant) and i.value is Ellipsis)
                idx = idx[:k] + [ast.Slice(lower=None, upper=None, step=None)] * (len(lay) - len(idx) + 1) + idx[k + 1 :]
            out = []
            for n, g in enumerate(lay):
                i = idx[n] if n < len(idx) else None
                if i is None or (isinstance(i, ast.Slice) and i.lower is None and i.upper is None and i.step is None):
                    out.append(g)
                elif const_number(i) is not None:
                    self.reduced.append(("index", g))
                elif isinstance(i, ast.Slice):
                    self.reduced.append(("slice", g))
                    out.append(g)
                else:
                    raise Unknown("index `%s`" % norm_text(i)[:30])
            return tuple(out)
        raise Unknown(type(e).__name__)

    def _tensor_args(self, c):
        out = []
        for a in list(c.args) + [k.value for k in c.keywords]:
            try:
                out.append(self.ev(a))
            except Unknown:
                continue
        return out

    def call(self, c):
        f = c.func
        if isinstance(f, ast.Name) and f.id == "__component__" and len(c.args) == 2:
            k = const_number(c.args[1])
            inner = c.args[0]
            if isinstance(inner, ast.Call) and k is not None:
                lays = self._row_call(inner)
                if lays is not None:
                    first = lays[0]
                    if int(k) == 0:
                        return first
                    fn = inner.func.body if isinstance(inner.func, ast.IfExp) else inner.func
                    attr = fn.attr if isinstance(fn, ast.Attribute) else ""
                    if attr in ("forward", "inverse", "forward_no_cache", "inverse_no_cache"):
                        return (first[0],)  # a Transform's log-det: one number per row
                    if attr in ("transformer", "inverse_transform", "_piecewise_cdf", "_elementwise_forward", "_elementwise_inverse"):
                        return first  # element-wise Jacobian terms, shaped like the argument
            raise Unknown("component of %s" % norm_text(inner)[:40])
        if isinstance(f, ast.Attribute):
            is_mod = isinstance(f.value, ast.Name) and f.value.id in ("torch", "F", "torchutils", "np")
            name = f.attr
            if is_mod:
                if name == "sum_except_batch" and c.args:
                    lay = self.ev(c.args[0])
                    nb = next((k.value for k in c.keywords if k.arg == "num_batch_dims"), c.args[1] if len(c.args) > 1 else None)
                    nbv = const_number(nb) if nb is not None else 1
                    if nbv is None:
                        raise Unknown("num_batch_dims")
                    self.reduced.append(("sum", tuple(a for g in lay[int(nbv) :] for a in g)))
                    return tuple(lay[: int(nbv)])
                if name in ELEMENTWISE_FUNCS and c.args:
                    return self.ev(c.args[0])
                if name in ("reshape", "permute") and c.args:
                    recv, rest = c.args[0], c.args[1:]
                    if len(rest) == 1 and isinstance(rest[0], (ast.Tuple, ast.List)):
                        rest = rest[0].elts
                    rest = list(rest)
                    if name != "permute":
                        rest = self._expand_shape_args(rest)
                    return self._shape_op(name, recv, rest, c)
                if name in REDUCTIONS and c.args:
                    return self._reduce(self.ev(c.args[0]), c, c.args[1:])
                raise Unknown("torch.%s" % name)
            if name in ("view_as", "reshape_as") and len(c.args) == 1:
                like = ast.Attribute(value=c.args[0], attr="shape", ctx=ast.Load())
                return self._shape_op("reshape", f.value, self._expand_shape_args([like]), c)
            if name in ("reshape", "view", "permute"):
                rest = list(c.args)
                if len(rest) == 1 and isinstance(rest[0], (ast.Tuple, ast.List)):
                    rest = list(rest[0].elts)
                if name != "permute":
                    rest = self._expand_shape_args(rest)
                return self._shape_op(name, f.value, rest, c)
            if name == "movedim" and len(c.args) == 2 and const_number(c.args[0]) is not None and const_number(c.args[1]) is not None:
                lay = list(self.ev(f.value))
                i, j = int(const_number(c.args[0])), int(const_number(c.args[1]))
                i = i if i >= 0 else len(lay) + i
                j = j if j >= 0 else len(lay) + j
                g = lay.pop(i)
                lay.insert(j, g)
                return tuple(lay)
            if name == "unflatten" and len(c.args) == 2 and const_number(c.args[0]) is not None and isinstance(c.args[1], (ast.Tuple, ast.List)):
                lay = self.ev(f.value)
                d = int(const_number(c.args[0]))
                d = d if d >= 0 else len(lay) + d
                shape = [ast.Subscript(value=ast.Attribute(value=f.value, attr="shape", ctx=ast.Load()), slice=ast.Constant(value=k), ctx=ast.Load()) for k in range(len(lay))]
                rest = shape[:d] + list(c.args[1].elts) + shape[d + 1 :]
                return self._shape_op("reshape", f.value, self._expand_shape_args(rest), c)
            if name == "t" and not c.args:
                lay = list(self.ev(f.value))
                if len(lay) != 2:
                    raise Unknown(".t() of a tensor with %d axes" % len(lay))
                return (lay[1], lay[0])
            if name in ("transpose",) and len(c.args) == 2:
                lay = list(self.ev(f.value))
                i, j = const_number(c.args[0]), const_number(c.args[1])
                if i is None or j is None:
                    raise Unknown("transpose")
                lay[int(i)], lay[int(j)] = lay[int(j)], lay[int(i)]
                return tuple(lay)
            if name in REDUCTIONS:
                return self._reduce(self.ev(f.value), c, c.args)
            if name in ELEMENTWISE_METHODS:
                return self.ev(f.value)
            if name == "unsqueeze" and len(c.args) == 1 and const_number(c.args[0]) is not None:
                lay = list(self.ev(f.value))
                k = int(const_number(c.args[0]))
                k = k if k >= 0 else len(lay) + 1 + k
                lay.insert(k, ())
                return tuple(lay)
            if name == "flatten":
                lay = self.ev(f.value)
                s = const_number(c.args[0]) if c.args else 0
                if s is None or len(c.args) > 1:
                    raise Unknown("flatten")
                s = int(s)
                return tuple(lay[:s]) + (tuple(a for g in lay[s:] for a in g),)
            lays = self._row_call(c)
            if lays is not None:
                return lays[0]
        raise Unknown("call %s" % norm_text(c.func)[:40])

    def _row_call(self, c):
        f = c.func
        if isinstance(f, ast.IfExp) and isinstance(f.body, ast.Attribute) and isinstance(f.orelse, ast.Attribute) and {f.body.attr, f.orelse.attr} <= {"forward", "inverse", "forward_no_cache", "inverse_no_cache"}:
            f = f.body  # either direction of a Transform: same shape contract
        attr = f.attr if isinstance(f, ast.Attribute) else None
        if attr is None or attr not in ROW_CALLEE_ATTRS:
            return None
        lays = self._tensor_args(c)
        if not lays:
            return None
        self.row_calls.append((c, lays))
        return lays

    def _shape_op(self, name, recv, rest, node):
        lay = self.ev(recv)
        if name == "permute":
            perm = [const_number(a) for a in rest]
            if any(p is None for p in perm):
                raise Unknown("permute with non-constant axes")
            perm = [int(p) for p in perm]
            if sorted(perm) != list(range(len(lay))):
                raise Mismatch("`.permute%s` of a tensor with %d axes %s" % (tuple(perm), len(lay), show(lay)), node)
            return tuple(lay[i] for i in perm)
        return self.regroup(lay, rest, node)

    def _reduce(self, lay, c, pos):
        dim = next((k.value for k in c.keywords if k.arg in ("dim", "axis")), pos[0] if pos else None)
        op = c.func.attr if isinstance(c.func, ast.Attribute) else "?"
        if dim is None:
            self.reduced.append((op, tuple(a for g in lay for a in g)))
            return ()
        dims = [const_number(x) for x in (dim.elts if isinstance(dim, (ast.Tuple, ast.List)) else [dim])]
        if any(d is None for d in dims):
            raise Unknown("reduction over a non-constant axis")
        keep = next((k.value for k in c.keywords if k.arg == "keepdim"), None)
        drop = {int(d) % len(lay) for d in dims} if lay else set()
        self.reduced.append((op, tuple(a for i, g in enumerate(lay) if i in drop for a in g)))
        if keep is not None and ((isinstance(keep, ast.Constant) and keep.value is True) or const_number(keep)):
            return tuple(() if i in drop else g for i, g in enumerate(lay))
        return tuple(g for i, g in enumerate(lay) if i not in drop)


def _sz(s):
    if isinstance(s, tuple) and s and s[0] == "quot":
        return "%s/%s" % (_sz(s[1]), _sz(s[2]))
    if isinstance(s, tuple):
        return str(s[-1])
    return str(s)


def image_env():
    """layouts of the two 4-D arguments of the image code paths: inputs [B, C, H, W] and the
    conditioner's parameters [B, P, H, W] (P = C * parameters per channel: of unknown
    factorisation, so a reshape may split it)"""
    B, C, H, W = ("B", "B", False), ("C", "C", False), ("H", "H", False), ("W", "W", False)
    P = ("P", "P", True)
    return {"inputs": ((B,), (C,), (H,), (W,)), "transform_params": ((B,), (P,), (H,), (W,))}


LAYOUT_ONLY = {"reshape", "view", "permute", "contiguous", "clone", "transpose", "flatten", "unsqueeze", "squeeze", "movedim", "moveaxis", "unflatten", "t", "view_as", "reshape_as"}


def strip_layout_ops(e):
    """the value underneath re-arrangements and sums: x.reshape(..).permute(..).sum(..) -> x"""
    while True:
        if isinstance(e, ast.Call) and isinstance(e.func, ast.Attribute):
            f = e.func
            is_mod = isinstance(f.value, ast.Name) and f.value.id in ("torch", "torchutils", "F")
            if f.attr in LAYOUT_ONLY or f.attr in ("sum", "sum_except_batch"):
                if is_mod:
                    if not e.args:
                        return e
                    e = e.args[0]
                else:
                    e = f.value
                continue
        return e
