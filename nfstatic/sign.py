"""Sign lattice {POS, NONNEG, ANY} over expanded expressions (DESIGN 1.8).

Numeric hyper-parameters are taken to have the sign of their defaults (assumption A-CFG);
`1 - m * K` is NONNEG when the path carries the guard `m * K > 1 -> raise`.
"""

import ast

from .astutil import const_number
from .model import norm_text

POS, NONNEG, ANY = "POS", "NONNEG", "ANY"

POS_FUNCS = {"exp", "softplus", "sigmoid", "softmax", "ones_like", "cosh"}
NONNEG_FUNCS = {"abs", "relu", "square", "sqrt_", "norm"}
POSITIVE_HYPER = {"min_bin_width", "min_bin_height", "min_derivative", "eps", "self.eps", "self._epsilon", "self.epsilon", "tail_bound", "self.momentum", "beta", "quadratic_threshold"}
TRANSPARENT = {"gather", "expand", "expand_as", "view", "reshape", "unsqueeze", "squeeze", "contiguous", "clone", "detach", "float", "double", "to", "t", "permute", "transpose", "pad_pos", "cumsum", "sum", "mean", "sum_except_batch", "repeat", "new_tensor", "prod", "cumprod"}


def _mul(a, b):
    if a == POS and b == POS:
        return POS
    if a in (POS, NONNEG) and b in (POS, NONNEG):
        return NONNEG
    return ANY


def _add(a, b):
    if (a == POS and b in (POS, NONNEG)) or (b == POS and a in (POS, NONNEG)):
        return POS
    if a == NONNEG and b == NONNEG:
        return NONNEG
    return ANY


def sign_of(e, guards=(), _memo=None):
    """guards: set of normalised atoms known to hold on this path (e.g. 'min_bin_width * num_bins <= 1.0')."""
    if _memo is None:
        _memo = {}
    k = id(e)
    if k in _memo:
        return _memo[k]
    r = _sign_of(e, guards, _memo)
    _memo[k] = r
    return r


def upper_bound(e, guards=(), depth=0):
    """A numeric upper bound of a NONNEG/POS expression, or None.  Only the forms the spline
    code needs: softmax <= 1; the floored softmax m + (1 - m*K) * softmax(.) <= 1 (bin sizes
    sum to one, under the guard m*K <= 1); c * x; x[...]."""
    if depth > 12:
        return None
    v = const_number(e)
    if v is not None:
        return float(v)
    if isinstance(e, ast.Subscript):
        return upper_bound(e.value, guards, depth + 1)
    if isinstance(e, ast.Call):
        fe = e.func
        last = fe.attr if isinstance(fe, ast.Attribute) else (fe.id if isinstance(fe, ast.Name) else "")
        if last in ("softmax", "sigmoid"):
            return 1.0
        return None
    if isinstance(e, ast.BinOp):
        if isinstance(e.op, ast.Mult):
            a, b = upper_bound(e.left, guards, depth + 1), upper_bound(e.right, guards, depth + 1)
            if a is not None and b is not None and a >= 0 and b >= 0:
                return a * b
            return None
        if isinstance(e.op, ast.Add):
            # m + (1 - m*K) * softmax(.)  <=  1
            for a, b in ((e.left, e.right), (e.right, e.left)):
                if isinstance(a, ast.Name) and a.id in ("min_bin_width", "min_bin_height") and isinstance(b, ast.BinOp) and isinstance(b.op, ast.Mult):
                    for fac, sm in ((b.left, b.right), (b.right, b.left)):
                        if isinstance(fac, ast.BinOp) and isinstance(fac.op, ast.Sub) and const_number(fac.left) == 1 and upper_bound(sm, guards, depth + 1) == 1.0:
                            names = {n.id for n in ast.walk(fac.right) if isinstance(n, ast.Name)}
                            if a.id in names:
                                return 1.0
            a, b = upper_bound(e.left, guards, depth + 1), upper_bound(e.right, guards, depth + 1)
            if a is not None and b is not None:
                return a + b
    return None


def is_negative(e, guards=(), depth=0):
    """strictly negative for certain: -POS, a product of one such factor with POS ones, clamp(x, max=<negative>)"""
    if depth > 8:
        return False
    v = const_number(e)
    if v is not None:
        return v < 0
    if isinstance(e, ast.UnaryOp) and isinstance(e.op, ast.USub):
        return sign_of(e.operand, guards) == POS
    if isinstance(e, ast.BinOp) and isinstance(e.op, ast.Mult):
        a, b = is_negative(e.left, guards, depth + 1), is_negative(e.right, guards, depth + 1)
        if a and not b:
            return sign_of(e.right, guards) == POS
        if b and not a:
            return sign_of(e.left, guards) == POS
        return False
    if isinstance(e, ast.Subscript):
        return is_negative(e.value, guards, depth + 1)
    if isinstance(e, ast.Call):
        fe = e.func
        last = fe.attr if isinstance(fe, ast.Attribute) else (fe.id if isinstance(fe, ast.Name) else "")
        if last in ("clamp", "clip", "clamp_max"):
            is_mod = isinstance(fe, ast.Attribute) and isinstance(fe.value, ast.Name) and fe.value.id == "torch"
            rest = e.args[1:] if is_mod else e.args
            hi = next((k.value for k in e.keywords if k.arg == "max"), None)
            if hi is None and last == "clamp_max" and rest:
                hi = rest[0]
            if hi is None and len(rest) > 1:
                hi = rest[1]
            return hi is not None and is_negative(hi, guards, depth + 1)
    return False


def _prod_key(e):
    """a product as an ordered multiset of factor texts (a * b == b * a)"""
    from .astutil import product_factors

    try:
        sg, fac = product_factors(e)
    except Exception:
        return None
    return (sg, tuple(sorted(norm_text(f).replace(" ", "") for f in fac)))


def _le_one(node, guards):
    """Does a guard on this path say `node <= 1` ?  (products compared up to commutativity,
    the bound as a number: 1, 1.0)"""
    key = _prod_key(node) if isinstance(node, ast.AST) else None
    rt = (norm_text(node) if isinstance(node, ast.AST) else str(node)).replace(" ", "")
    for g in guards:
        gg = g.replace(" ", "")
        for one in ("1.0", "1"):
            if gg in ("%s<=%s" % (rt, one), "%s>=%s" % (one, rt)):
                return True
        if key is None:
            continue
        try:
            c = ast.parse(g, mode="eval").body
        except SyntaxError:
            continue
        if isinstance(c, ast.Compare) and len(c.ops) == 1:
            l, r, op = c.left, c.comparators[0], c.ops[0]
            if isinstance(op, (ast.LtE, ast.Lt)) and const_number(r) == 1 and _prod_key(l) == key:
                return True
            if isinstance(op, (ast.GtE, ast.Gt)) and const_number(l) == 1 and _prod_key(r) == key:
                return True
    return False


def _sign_of(e, guards, _memo):
    def sign_of(x, g=guards):
        return globals()["sign_of"](x, guards, _memo)

    v = const_number(e)
    if v is not None:
        return POS if v > 0 else (NONNEG if v == 0 else ANY)
    t = norm_text(e) if isinstance(e, (ast.Name, ast.Attribute)) or (isinstance(e, ast.Subscript) and isinstance(e.value, ast.Attribute)) else ""
    if t in POSITIVE_HYPER or (t and ("POS:" + t) in guards):
        return POS
    if isinstance(e, ast.Name) or isinstance(e, ast.Attribute):
        if t.endswith(".shape[-1]") or t in ("num_bins",):
            return POS
        return ANY
    if isinstance(e, ast.Subscript):
        if isinstance(e.value, ast.Attribute) and e.value.attr == "shape":
            return POS
        return sign_of(e.value, guards)
    if isinstance(e, ast.BinOp):
        if isinstance(e.op, ast.Add):
            return _add(sign_of(e.left, guards), sign_of(e.right, guards))
        if isinstance(e.op, ast.Mult):
            if is_negative(e.left, guards) and is_negative(e.right, guards):
                return POS
            return _mul(sign_of(e.left, guards), sign_of(e.right, guards))
        if isinstance(e.op, ast.Div):
            a, b = sign_of(e.left, guards), sign_of(e.right, guards)
            if b == POS:
                return a if a in (POS, NONNEG) else ANY
            return ANY
        if isinstance(e.op, ast.Pow):
            ex = const_number(e.right)
            base = sign_of(e.left, guards)
            if base == POS:
                return POS
            if ex is not None and ex % 2 == 0:
                return NONNEG
            return ANY
        if isinstance(e.op, ast.Sub):
            from .astutil import signed_terms
            from .symexp import size_upto

            terms = signed_terms(e)
            pos_const = sum(const_number(t) for sg, t in terms if sg > 0 and const_number(t) is not None)
            neg = [t for sg, t in terms if sg < 0]
            others = [t for sg, t in terms if sg > 0 and const_number(t) is None]
            if pos_const > 0 and not others and neg:
                if len(neg) == 1 and pos_const == 1:
                    rt = norm_text(neg[0]) if size_upto(neg[0], 60) <= 60 else "?"
                    # 1 - m * K  with the guard  m * K > 1 -> raise
                    if size_upto(neg[0], 60) <= 60 and _le_one(neg[0], guards):
                        return NONNEG
                    # 1 - m for documented fractions 0 < m < 1
                    if rt in ("min_bin_height", "min_bin_width", "min_derivative", "self.momentum", "self.eps", "eps"):
                        return POS
                # c - A - B ... with known upper bounds of the subtracted non-negative terms
                ubs = [upper_bound(t, guards) for t in neg]
                if all(u is not None for u in ubs) and all(sign_of(t) in (POS, NONNEG) for t in neg) and sum(ubs) < pos_const:
                    return POS
            return ANY
        return ANY
    if isinstance(e, ast.UnaryOp):
        if isinstance(e.op, ast.UAdd):
            return sign_of(e.operand, guards)
        return ANY
    if isinstance(e, ast.Call):
        fe = e.func
        last = fe.attr if isinstance(fe, ast.Attribute) else (fe.id if isinstance(fe, ast.Name) else "")
        recv_is_module = isinstance(fe, ast.Attribute) and isinstance(fe.value, ast.Name) and fe.value.id in ("torch", "F", "torchutils", "np", "math", "nn")
        f = ("%s.%s" % (fe.value.id, last)) if recv_is_module else ("." + last if isinstance(fe, ast.Attribute) else last)
        if last == "__store__":
            # a tensor with some entries overwritten: sign of the join
            a = sign_of(e.args[0], guards)
            b = sign_of(e.args[2], guards)
            return a if a == b else (NONNEG if {a, b} <= {POS, NONNEG} else ANY)
        if last == "__component__":
            return ANY
        if last == "where" and len(e.args) == 3:
            a, b = sign_of(e.args[1], guards), sign_of(e.args[2], guards)
            return a if a == b else (NONNEG if {a, b} <= {POS, NONNEG} else ANY)
        if last in POS_FUNCS:
            return POS
        if last in NONNEG_FUNCS:
            return NONNEG
        if last == "sqrt":
            arg = e.args[0] if e.args else (e.func.value if isinstance(e.func, ast.Attribute) else None)
            s = sign_of(arg, guards) if arg is not None else ANY
            return s if s in (POS, NONNEG) else ANY
        if last == "pow":
            base = e.func.value if isinstance(e.func, ast.Attribute) and not f.startswith("torch.") else (e.args[0] if e.args else None)
            ex = e.args[-1] if e.args else None
            s = sign_of(base, guards) if base is not None else ANY
            if s == POS:
                return POS
            if ex is not None and const_number(ex) is not None and const_number(ex) % 2 == 0:
                return NONNEG
            return ANY
        if last == "clamp":
            recv = e.func.value if isinstance(e.func, ast.Attribute) and not f.startswith("torch.") else (e.args[0] if e.args else None)
            rest = e.args if (isinstance(e.func, ast.Attribute) and not f.startswith("torch.")) else e.args[1:]
            lo = rest[0] if rest else next((k.value for k in e.keywords if k.arg == "min"), None)
            hi = rest[1] if len(rest) > 1 else next((k.value for k in e.keywords if k.arg == "max"), None)
            s = sign_of(recv, guards) if recv is not None else ANY
            lo_s = sign_of(lo, guards) if lo is not None else None
            hi_s = sign_of(hi, guards) if hi is not None else POS
            if lo_s == POS and hi_s == POS:
                return POS
            if s == POS and hi_s == POS:
                return POS  # min(POS, POS upper bound) stays positive; the lower bound only raises it
            if lo_s in (POS, NONNEG):
                return NONNEG
            return ANY
        if last == "pad":
            s = sign_of(e.args[0], guards) if e.args else ANY
            val = next((k.value for k in e.keywords if k.arg == "value"), None)
            vs = sign_of(val, guards) if val is not None else NONNEG
            if s == vs:
                return s
            return NONNEG if {s, vs} <= {POS, NONNEG} else ANY
        if last in ("cat", "stack"):
            parts = e.args[0].elts if e.args and isinstance(e.args[0], (ast.List, ast.Tuple)) else []
            ss = {sign_of(x, guards) for x in parts}
            if ss == {POS}:
                return POS
            return NONNEG if ss and ss <= {POS, NONNEG} else ANY
        if last in ("min", "max", "minimum", "maximum") and len(e.args) == 2:
            a, b = sign_of(e.args[0], guards), sign_of(e.args[1], guards)
            if a == b:
                return a
            return NONNEG if {a, b} <= {POS, NONNEG} else ANY
        if last in TRANSPARENT:
            recv = e.func.value if isinstance(e.func, ast.Attribute) and not (f.startswith("torch.") or f.startswith("F.") or f.startswith("torchutils.")) else (e.args[0] if e.args else None)
            return sign_of(recv, guards) if recv is not None else ANY
        if last == "_share_across_batch":
            return sign_of(e.args[0], guards) if e.args else ANY
        return ANY
    return ANY
