"""Rational-function arithmetic over opaque atoms, with the exp / log laws (DESIGN 8.11).

Closed formulas made of + - * / integer powers, exp, log and other elementary functions of a few symbols
(the constructor arguments of a transform) are brought to a quotient of two polynomials whose indeterminates
are *atoms*: the symbols themselves and `f(<normal form of the argument>)` for every function application
that the laws below do not remove:

    exp(a + k log x)  =  x^k exp(a)          log(c x^k exp(a) / ..)  =  log c + k log x + a - ..
    exp(0) = 1, log(1) = 0

Two formulas are equal when the cross-multiplied difference is the zero polynomial.  When it is not, they
differ as functions provided the atoms are algebraically independent; `independent()` says whether the atoms
of a polynomial are of the kinds for which that is known (distinct elementary transcendentals of the symbols,
no two of the exp / tanh / sigmoid / sinh / cosh family on the same argument, no log of a sum).
"""

import ast
from fractions import Fraction

from .astutil import const_number
from .model import norm_text


class NotRational(Exception):
    pass


def _pmul(a, b):
    out = {}
    for ma, ca in a.items():
        for mb, cb in b.items():
            d = dict(ma)
            for k, v in mb:
                d[k] = d.get(k, 0) + v
            m = tuple(sorted((k, v) for k, v in d.items() if v != 0))
            out[m] = out.get(m, 0) + ca * cb
    return {m: c for m, c in out.items() if c != 0}


def _padd(a, b, sign=1):
    out = dict(a)
    for m, c in b.items():
        out[m] = out.get(m, 0) + sign * c
    return {m: c for m, c in out.items() if c != 0}


ONE = {(): Fraction(1)}


class Rat:
    __slots__ = ("num", "den")

    def __init__(self, num, den=None):
        self.num = num
        self.den = den if den is not None else dict(ONE)
        self._norm()

    def _norm(self):
        if not self.num:
            self.den = dict(ONE)
            return
        # common monomial content and the denominator's leading coefficient
        if len(self.den) == 1:
            (m, c), = self.den.items()
            inv = {tuple((k, -v) for k, v in m): 1 / c}
            self.num = _pmul(self.num, inv)
            self.den = dict(ONE)
            # negative powers stay in the numerator's monomials: a Laurent polynomial
            return
        lead = self.den[sorted(self.den)[0]]
        if lead != 1:
            self.num = {m: c / lead for m, c in self.num.items()}
            self.den = {m: c / lead for m, c in self.den.items()}

    @staticmethod
    def const(v):
        f = Fraction(v)
        return Rat({(): f} if f != 0 else {})

    @staticmethod
    def atom(a):
        return Rat({((a, 1),): Fraction(1)})

    def __add__(self, o):
        return Rat(_padd(_pmul(self.num, o.den), _pmul(o.num, self.den)), _pmul(self.den, o.den))

    def __sub__(self, o):
        return Rat(_padd(_pmul(self.num, o.den), _pmul(o.num, self.den), -1), _pmul(self.den, o.den))

    def __mul__(self, o):
        return Rat(_pmul(self.num, o.num), _pmul(self.den, o.den))

    def __truediv__(self, o):
        if not o.num:
            raise NotRational("division by zero")
        return Rat(_pmul(self.num, o.den), _pmul(self.den, o.num))

    def __neg__(self):
        return Rat({m: -c for m, c in self.num.items()}, dict(self.den))

    def is_zero(self):
        return not self.num

    def is_const(self):
        return self.den == ONE and (not self.num or set(self.num) == {()})

    def value(self):
        return self.num.get((), Fraction(0))

    def single(self):
        """(coefficient, {atom: power}) when the whole is one Laurent monomial, else None"""
        if self.den == ONE and len(self.num) == 1:
            (m, c), = self.num.items()
            return c, dict(m)
        return None

    def atoms(self):
        return {k for p in (self.num, self.den) for m in p for k, _ in m}

    def key(self):
        def pk(p):
            return "+".join("%s*%s" % (c, "*".join("%s^%s" % (k, v) for k, v in m)) for m, c in sorted(p.items(), key=repr))

        return pk(self.num) if self.den == ONE else "(%s)/(%s)" % (pk(self.num), pk(self.den))

    def __eq__(self, o):
        return (self - o).is_zero()

    def __hash__(self):
        return hash(self.key())

    def show(self):
        def pk(p):
            parts = []
            for m, c in sorted(p.items(), key=repr):
                mono = " ".join(("%s" % k) + ("^%s" % v if v != 1 else "") for k, v in m)
                parts.append(("%s" % (c if c.denominator != 1 else c.numerator)) + ((" " + mono) if mono else "") if (c != 1 or not mono) else mono)
            return " + ".join(parts) if parts else "0"

        return pk(self.num) if self.den == ONE else "(%s) / (%s)" % (pk(self.num), pk(self.den))


FAMILY = {"exp": "E", "tanh": "E", "sigmoid": "E", "sinh": "E", "cosh": "E", "expm1": "E", "softplus": "L", "log": "L", "log1p": "L", "atanh": "L", "arctanh": "L"}


class Algebra:
    """translate ast expressions; `env` maps names / attribute texts to their defining expressions"""

    def __init__(self, env=None, symbols=()):
        self.env = dict(env or {})
        self.symbols = set(symbols)
        self.exp_arg = {}  # exp atom -> Rat argument
        self.atom_info = {}  # atom -> (function, argument Rat or None)
        self._busy = set()

    def atom_for(self, fn, arg):
        a = "%s(%s)" % (fn, arg.key() if isinstance(arg, Rat) else arg)
        self.atom_info[a] = (fn, arg if isinstance(arg, Rat) else None)
        return a

    def log(self, x):
        s = x.single()
        if s is None:
            # a quotient of single monomials
            if len(x.num) == 1 and len(x.den) == 1:
                return self.log(Rat(dict(x.num))) - self.log(Rat(dict(x.den)))
            return Rat.atom(self.atom_for("log", x))
        c, mono = s
        if c <= 0:
            raise NotRational("log of a non-positive constant factor")
        out = Rat.const(0) if c == 1 else Rat.atom(self.atom_for("log", Rat.const(c)))
        for a, k in sorted(mono.items()):
            if a in self.exp_arg:
                out = out + self.exp_arg[a] * Rat.const(k)
            else:
                out = out + Rat.atom(self.atom_for("log", Rat.atom(a))) * Rat.const(k)
        return out

    def exp(self, u):
        if u.is_zero():
            return Rat.const(1)
        # exp(a + k log x) = x^k exp(a): peel integer multiples of log atoms off a polynomial argument
        factor = Rat.const(1)
        if u.den == ONE:
            rest = dict(u.num)
            for m, c in list(rest.items()):
                if len(m) == 1 and m[0][1] == 1 and self.atom_info.get(m[0][0], (None,))[0] == "log" and c.denominator == 1:
                    inner = self.atom_info[m[0][0]][1]
                    if inner is not None:
                        p = inner
                        k = int(c)
                        acc = Rat.const(1)
                        for _ in range(abs(k)):
                            acc = acc * p
                        factor = factor * (acc if k > 0 else Rat.const(1) / acc)
                        del rest[m]
            u = Rat(rest)
            if u.is_zero():
                return factor
        a = self.atom_for("exp", u)
        self.exp_arg[a] = u
        return factor * Rat.atom(a)

    def tr(self, e):
        c = const_number(e)
        if c is not None:
            return Rat.const(Fraction(c).limit_denominator(10 ** 12) if isinstance(c, float) else c)
        if isinstance(e, (ast.Name, ast.Attribute)):
            t = norm_text(e)
            if t in ("np.pi", "math.pi"):
                return Rat.atom("pi")
            if t in ("np.e", "math.e"):
                return self.exp(Rat.const(1))
            if t in self.env and t not in self._busy:
                self._busy.add(t)
                try:
                    return self.tr(self.env[t])
                finally:
                    self._busy.discard(t)
            if t in self.symbols:
                return Rat.atom(t)
            raise NotRational("unknown name `%s`" % t)
        if isinstance(e, ast.UnaryOp) and isinstance(e.op, (ast.USub, ast.UAdd)):
            v = self.tr(e.operand)
            return -v if isinstance(e.op, ast.USub) else v
        if isinstance(e, ast.BinOp):
            if isinstance(e.op, ast.Pow):
                k = const_number(e.right)
                if k is not None and float(k).is_integer() and abs(k) <= 6:
                    b = self.tr(e.left)
                    out = Rat.const(1)
                    for _ in range(abs(int(k))):
                        out = out * b
                    return out if k >= 0 else Rat.const(1) / out
                if k is not None and k == 0.5:
                    return Rat.atom(self.atom_for("sqrt", self.tr(e.left)))
                raise NotRational("power `%s`" % norm_text(e)[:40])
            a, b = self.tr(e.left), self.tr(e.right)
            if isinstance(e.op, ast.Add):
                return a + b
            if isinstance(e.op, ast.Sub):
                return a - b
            if isinstance(e.op, ast.Mult):
                return a * b
            if isinstance(e.op, ast.Div):
                return a / b
            raise NotRational("operator in `%s`" % norm_text(e)[:40])
        if isinstance(e, ast.Call):
            f = e.func
            name = f.attr if isinstance(f, ast.Attribute) else (f.id if isinstance(f, ast.Name) else None)
            recv_is_mod = isinstance(f, ast.Attribute) and isinstance(f.value, ast.Name) and f.value.id in ("np", "math", "torch", "F", "numpy")
            args = list(e.args)
            if isinstance(f, ast.Attribute) and not recv_is_mod:
                args = [f.value] + args
            if (e.keywords and name not in ("clamp", "clip")) or name is None:
                raise NotRational("call `%s`" % norm_text(e)[:40])
            if name in ("float", "abs") and len(args) == 1 and name == "float":
                return self.tr(args[0])
            if name in ("clamp", "clip", "clamp_min", "clamp_max") and 1 <= len(args) <= 3:
                # clamp(u, lo, hi) at a point where u is one of its bounds is that bound
                kw = {k.arg: k.value for k in e.keywords}
                u = self.tr(args[0])
                bounds = [self.tr(b) for b in args[1:] if not (isinstance(b, ast.Constant) and b.value is None)] + [self.tr(v) for k, v in kw.items() if k in ("min", "max")]
                if any(u == b for b in bounds):
                    return u
                raise NotRational("clamp away from its bounds")
            if name == "log" and len(args) == 1:
                return self.log(self.tr(args[0]))
            if name == "exp" and len(args) == 1:
                return self.exp(self.tr(args[0]))
            if name == "log1p" and len(args) == 1:
                return self.log(Rat.const(1) + self.tr(args[0]))
            if name == "sqrt" and len(args) == 1:
                return Rat.atom(self.atom_for("sqrt", self.tr(args[0])))
            if name in ("square",) and len(args) == 1:
                v = self.tr(args[0])
                return v * v
            if name in ("tanh", "sigmoid", "sinh", "cosh", "atanh", "arctanh", "softplus", "erf", "atan", "arctan", "sin", "cos", "expm1") and len(args) == 1:
                u = self.tr(args[0])
                # odd / even functions: one atom for f(u) and f(-u)
                lead = u.num[sorted(u.num, key=repr)[0]] if u.num else 0
                if lead < 0 and name in ("tanh", "sinh", "atanh", "arctanh", "erf", "atan", "arctan", "sin"):
                    return -Rat.atom(self.atom_for(name, -u))
                if lead < 0 and name in ("cosh", "cos"):
                    return Rat.atom(self.atom_for(name, -u))
                return Rat.atom(self.atom_for(name, u))
            raise NotRational("function `%s`" % name)
        raise NotRational("expression `%s`" % norm_text(e)[:40])

    def independent(self, r):
        """are the atoms of r known to be algebraically independent functions of the symbols?"""
        fam = {}
        for a in r.atoms():
            fn, arg = self.atom_info.get(a, (None, None))
            if fn is None:
                continue  # a symbol
            if fn == "log" and arg is not None and arg.single() is None:
                return False  # log of a sum: may hide a relation (atanh = 1/2 log((1+t)/(1-t)))
            if fn in ("sqrt",):
                return False
            k = (FAMILY.get(fn, fn), arg.key() if arg is not None else "")
            if FAMILY.get(fn) == "E":
                fam.setdefault(k, set()).add(fn)
                if len(fam[k]) > 1:
                    return False
        return True
