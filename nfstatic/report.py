"""Findings, rule instances and the per-run context shared by all rules."""

import ast

from .model import norm_text, stmt_of


class Finding:
    def __init__(self, rule, module, qualname, node, message, witness=None, construct=None):
        self.rule = rule
        self.file = module.relpath if hasattr(module, "relpath") else str(module)
        self.qualname = qualname
        self.node = node
        st = stmt_of(node) if isinstance(node, ast.AST) and not isinstance(node, ast.stmt) else node
        self.line = getattr(node, "lineno", 0) or getattr(st, "lineno", 0)
        if construct is not None:
            self.construct = construct
        elif isinstance(st, (ast.FunctionDef, ast.ClassDef)):
            self.construct = "def %s" % st.name
        elif isinstance(st, (ast.If, ast.For, ast.While, ast.With)):
            head = st.test if hasattr(st, "test") else (st.iter if hasattr(st, "iter") else (st.items[0].context_expr if hasattr(st, "items") and st.items else None))
            self.construct = "%s %s" % (type(st).__name__.lower(), norm_text(head) if head is not None else "")
        elif isinstance(st, ast.AST):
            self.construct = norm_text(st)
        else:
            self.construct = str(node)
        self.message = message
        self.witness = witness or []

    def key(self):
        """Stable identity: rule + file + function + normalised construct (never a line)."""
        return (self.rule, self.file, self.qualname, self.construct)

    def to_json(self):
        return {
            "rule": self.rule,
            "file": self.file,
            "function": self.qualname,
            "line": self.line,
            "construct": self.construct,
            "message": self.message,
            "witness": self.witness,
        }

    def __repr__(self):
        return "%s %s:%d %s: %s" % (self.rule, self.file, self.line, self.qualname, self.message)


class RuleResult:
    """What one rule did on this run."""

    def __init__(self, rule, description):
        self.rule = rule
        self.description = description
        self.instances = []  # human-readable instance descriptors (decided)
        self.nontrivial = set()
        self.findings = []
        self.undecided = []  # instances the rule could not decide (exit 2 above baseline)
        self.notes = []

    def ok(self, instance, nontrivial=True):
        self.instances.append(instance)
        if nontrivial:
            self.nontrivial.add(instance)

    def fail(self, finding, instance=None):
        self.findings.append(finding)
        inst = instance or "%s:%s:%s" % (finding.file, finding.qualname, finding.construct)
        self.instances.append(inst)
        self.nontrivial.add(inst)

    def undecide(self, instance, why):
        self.undecided.append("%s (%s)" % (instance, why))


def dedupe(findings):
    seen = {}
    for f in findings:
        seen.setdefault(f.key(), f)
    return list(seen.values())
