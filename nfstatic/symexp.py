"""Path-wise symbolic expansion of a function body (DESIGN 1.3, def-use by substitution).

For every control-flow path (if/else forks; loops are entered once) the locals are expanded to
expressions over the function's parameters, `self` attributes and calls, so that a rule can
look at "what is returned on this path" as one expression tree, however the code spells the
intermediate steps.  Nothing is executed; expressions stay syntax trees.

Synthetic nodes:
  __component__(call, i)     the i-th element of a tuple-returning call
  __store__(old, index, v)   the tensor `old` after `old[index] = v`
  __append__(old, v)         the list `old` after `old.append(v)`
  __loop__(x)                a value produced inside a loop body (one representative iteration)
"""

import ast
import copy

from .model import AnalysisIncomplete, norm_text

MAX_PATHS = 512


def _call(name, *args):
    return ast.Call(func=ast.Name(id=name, ctx=ast.Load()), args=list(args), keywords=[])


def component(call, i):
    # divmod(a, b)[0] / [1] are a // b and a % b: keep expansions in that canonical spelling
    if isinstance(call, ast.Call) and isinstance(call.func, ast.Name) and call.func.id == "divmod" and len(call.args) == 2 and not call.keywords and i in (0, 1):
        return ast.BinOp(left=call.args[0], op=ast.FloorDiv() if i == 0 else ast.Mod(), right=call.args[1])
    return _call("__component__", call, ast.Constant(value=i))


def is_component(e):
    return isinstance(e, ast.Call) and isinstance(e.func, ast.Name) and e.func.id == "__component__"


def is_store(e):
    return isinstance(e, ast.Call) and isinstance(e.func, ast.Name) and e.func.id == "__store__"


def is_synth(e, name):
    return isinstance(e, ast.Call) and isinstance(e.func, ast.Name) and e.func.id == name


class Path:
    def __init__(self):
        self.env = {}
        self.conds = []  # (expanded test, raw test, polarity)
        self.kind = None  # return | raise | fallthrough
        self.ret = None
        self.raise_exc = None
        self.effects = []  # (kind, node, expanded...) in order
        self.in_loop = 0

    def fork(self):
        p = Path()
        p.env = dict(self.env)
        p.conds = list(self.conds)
        p.effects = list(self.effects)
        p.in_loop = self.in_loop
        return p


class Subst(ast.NodeTransformer):
    def __init__(self, env):
        self.env = env

    def visit_Name(self, node):
        if isinstance(node.ctx, ast.Load) and node.id in self.env:
            return self.env[node.id]
        return node

    def visit_Lambda(self, node):
        return node

    def visit_Tuple(self, node):
        node = self.generic_visit(node)
        # (*(a, b), c) is (a, b, c): a written-out tuple that reached a star position by substitution
        if any(isinstance(x, ast.Starred) and isinstance(x.value, (ast.Tuple, ast.List)) and not any(isinstance(y, ast.Starred) for y in x.value.elts) for x in node.elts):
            elts = []
            for x in node.elts:
                if isinstance(x, ast.Starred) and isinstance(x.value, (ast.Tuple, ast.List)) and not any(isinstance(y, ast.Starred) for y in x.value.elts):
                    elts.extend(x.value.elts)
                else:
                    elts.append(x)
            node = ast.copy_location(ast.Tuple(elts=elts, ctx=node.ctx), node)
        # index tuples spelled with the builtins: Ellipsis, slice(None)
        if isinstance(node.ctx, ast.Load) and any((isinstance(x, ast.Name) and x.id == "Ellipsis") or (isinstance(x, ast.Call) and isinstance(x.func, ast.Name) and x.func.id == "slice") for x in node.elts):
            elts = []
            for x in node.elts:
                if isinstance(x, ast.Name) and x.id == "Ellipsis":
                    elts.append(ast.copy_location(ast.Constant(value=Ellipsis), x))
                elif isinstance(x, ast.Call) and isinstance(x.func, ast.Name) and x.func.id == "slice" and not x.keywords and 1 <= len(x.args) <= 3:
                    a = list(x.args)
                    none = lambda e: isinstance(e, ast.Constant) and e.value is None
                    lo, hi, st = (None, a[0], None) if len(a) == 1 else (a[0], a[1], a[2] if len(a) == 3 else None)
                    elts.append(ast.copy_location(ast.Slice(lower=None if lo is None or none(lo) else lo, upper=None if hi is None or none(hi) else hi, step=None if st is None or none(st) else st), x))
                else:
                    elts.append(x)
            node = ast.copy_location(ast.Tuple(elts=elts, ctx=node.ctx), node)
        return node

    def visit_Subscript(self, node):
        node = self.generic_visit(node)
        # (a, b)[0] is a: a written-out tuple that reached the subscript by substitution
        v = node.value
        if isinstance(node.ctx, ast.Load) and isinstance(v, (ast.Tuple, ast.List)) and not any(isinstance(x, ast.Starred) for x in v.elts) and isinstance(node.slice, ast.Constant) and isinstance(node.slice.value, int) and not isinstance(node.slice.value, bool) and -len(v.elts) <= node.slice.value < len(v.elts):
            return v.elts[node.slice.value]
        return node

    def visit_Call(self, node):
        node = self.generic_visit(node)
        # f(*(a, b)) is f(a, b): a written-out tuple that reached a star position by substitution
        if any(isinstance(a, ast.Starred) and isinstance(a.value, (ast.Tuple, ast.List)) and not any(isinstance(x, ast.Starred) for x in a.value.elts) for a in node.args):
            new = []
            for a in node.args:
                if isinstance(a, ast.Starred) and isinstance(a.value, (ast.Tuple, ast.List)) and not any(isinstance(x, ast.Starred) for x in a.value.elts):
                    new.extend(a.value.elts)
                else:
                    new.append(a)
            node = copy.copy(node)
            node.args = new
        # getattr(o, "name") with the name a constant that reached the call by substitution
        if isinstance(node.func, ast.Name) and node.func.id == "getattr" and len(node.args) == 2 and not node.keywords and isinstance(node.args[1], ast.Constant) and isinstance(node.args[1].value, str) and node.args[1].value.isidentifier():
            return ast.copy_location(ast.Attribute(value=node.args[0], attr=node.args[1].value, ctx=ast.Load()), node)
        # list((a, b)) is [a, b]
        if isinstance(node.func, ast.Name) and node.func.id in ("list", "tuple") and len(node.args) == 1 and not node.keywords and isinstance(node.args[0], (ast.Tuple, ast.List)) and not any(isinstance(x, ast.Starred) for x in node.args[0].elts):
            cls_ = ast.List if node.func.id == "list" else ast.Tuple
            return ast.copy_location(cls_(elts=list(node.args[0].elts), ctx=ast.Load()), node)
        return node

    def visit_ListComp(self, node):
        return self._comp(node)

    def visit_GeneratorExp(self, node):
        return self._comp(node)

    def _comp(self, node):
        bound = set()
        for g in node.generators:
            for n in ast.walk(g.target):
                if isinstance(n, ast.Name):
                    bound.add(n.id)
        env2 = {k: v for k, v in self.env.items() if k not in bound}
        new = copy.copy(node)
        sub = Subst(env2)
        new.elt = sub.visit(clone(node.elt))
        gens = []
        for g in node.generators:
            g2 = copy.copy(g)
            g2.iter = sub.visit(clone(g.iter))
            g2.ifs = [sub.visit(clone(i)) for i in g.ifs]
            gens.append(g2)
        new.generators = gens
        return new


def clone(node):
    """Structural copy over _fields only (never follows the _parent back-pointers)."""
    if isinstance(node, ast.AST):
        new = node.__class__()
        for f in node._fields:
            if hasattr(node, f):
                setattr(new, f, clone(getattr(node, f)))
        for a in ("lineno", "col_offset", "end_lineno", "end_col_offset"):
            if hasattr(node, a):
                setattr(new, a, getattr(node, a))
        return new
    if isinstance(node, list):
        return [clone(x) for x in node]
    return node


def expand(expr, env):
    if expr is None:
        return None
    return Subst(env).visit(clone(expr))


def _truth_under(test, assume):
    """True/False/None for `test` given assumed constants {name or text: value}."""
    if isinstance(test, ast.Call) and isinstance(test.func, ast.Name) and test.func.id == "bool" and len(test.args) == 1 and not test.keywords:
        return _truth_under(test.args[0], assume)  # bool(x) in a test is the truth of x
    if isinstance(test, ast.UnaryOp) and isinstance(test.op, ast.Not):
        v = _truth_under(test.operand, assume)
        return None if v is None else (not v)
    if isinstance(test, ast.BoolOp):
        vals = [_truth_under(v, assume) for v in test.values]
        if isinstance(test.op, ast.And):
            if any(v is False for v in vals):
                return False
            return True if all(v is True for v in vals) else None
        if any(v is True for v in vals):
            return True
        return False if all(v is False for v in vals) else None
    t = norm_text(test)
    if t in assume:
        return bool(assume[t])
    if isinstance(test, ast.Compare) and len(test.ops) == 1:
        l = norm_text(test.left)
        c = test.comparators[0]
        if l in assume and isinstance(c, ast.Constant):
            v = assume[l]
            op = test.ops[0]
            if isinstance(op, ast.Is):
                return v is c.value
            if isinstance(op, ast.IsNot):
                return v is not c.value
            if isinstance(op, ast.Eq):
                return v == c.value
            if isinstance(op, ast.NotEq):
                return v != c.value
    return None


# ---------------------------------------------------------------------------------------
# inlining of private helpers (so that "extract a helper" refactorings do not hide a computation)
# ---------------------------------------------------------------------------------------

# Private helpers of today's tree that rules anchor on by name (helper -> the classes / modules
# that define it): they stay opaque calls there and in their subclasses.  Every
# other private (leading underscore) repo-local function or method whose body is straight-line /
# branching code without loops, state writes or in-place writes to its parameters is expanded at
# the call site: the caller's path forks per returning path of the callee.
KEEP_OPAQUE = {
    "_apply": {"Linear"},
    "_apply_transforms": {"HouseholderSequence"},
    "_batch_logabsdet": {"PointwiseAffineTransform"},
    "_cascade": {"CompositeTransform"},
    "_check_forward_cache": {"Linear"},
    "_check_inverse_cache": {"Linear"},
    "_compute_params": {"ConditionalDiagonalNormal", "ConditionalIndependentBernoulli"},
    "_coupling_transform": {"PiecewiseCouplingTransform"},
    "_coupling_transform_forward": {"AffineCouplingTransform", "CouplingTransform", "PiecewiseCouplingTransform", "UMNNCouplingTransform"},
    "_coupling_transform_inverse": {"AffineCouplingTransform", "CouplingTransform", "PiecewiseCouplingTransform", "UMNNCouplingTransform"},
    "_create_lower_upper": {"LULinear"},
    "_create_upper": {"QRLinear"},
    "_elementwise": {"MaskedPiecewiseCubicAutoregressiveTransform", "MaskedPiecewiseLinearAutoregressiveTransform", "MaskedPiecewiseQuadraticAutoregressiveTransform", "MaskedPiecewiseRationalQuadraticAutoregressiveTransform"},
    "_elementwise_forward": {"AutoregressiveTransform", "MaskedAffineAutoregressiveTransform", "MaskedPiecewiseCubicAutoregressiveTransform", "MaskedPiecewiseLinearAutoregressiveTransform", "MaskedPiecewiseQuadraticAutoregressiveTransform", "MaskedPiecewiseRationalQuadraticAutoregressiveTransform", "MaskedUMNNAutoregressiveTransform"},
    "_elementwise_inverse": {"AutoregressiveTransform", "MaskedAffineAutoregressiveTransform", "MaskedPiecewiseCubicAutoregressiveTransform", "MaskedPiecewiseLinearAutoregressiveTransform", "MaskedPiecewiseQuadraticAutoregressiveTransform", "MaskedPiecewiseRationalQuadraticAutoregressiveTransform", "MaskedUMNNAutoregressiveTransform"},
    "_get_input_degrees": {"nflows.nn.nde.made", "nflows.transforms.made"},
    "_get_mask_and_degrees": {"MaskedLinear"},
    "_initialize": {"ActNorm", "LULinear", "MixtureOfGaussiansMADE", "QRLinear", "SVDLinear"},
    "_load_from_state_dict": {"Linear"},
    "_log_abs_scale": {"PointwiseAffineTransform"},
    "_log_prob": {"ConditionalDiagonalNormal", "ConditionalIndependentBernoulli", "DiagonalNormal", "Distribution", "Flow", "MADEMoG", "StandardNormal"},
    "_lu_forward_inverse": {"OneByOneConvolution"},
    "_mean": {"ConditionalDiagonalNormal", "ConditionalIndependentBernoulli", "DiagonalNormal", "Distribution", "StandardNormal"},
    "_output_dim_multiplier": {"AutoregressiveTransform", "MaskedAffineAutoregressiveTransform", "MaskedPiecewiseCubicAutoregressiveTransform", "MaskedPiecewiseLinearAutoregressiveTransform", "MaskedPiecewiseQuadraticAutoregressiveTransform", "MaskedPiecewiseRationalQuadraticAutoregressiveTransform", "MaskedUMNNAutoregressiveTransform"},
    "_permute": {"Permutation"},
    "_piecewise_cdf": {"PiecewiseCouplingTransform", "PiecewiseCubicCouplingTransform", "PiecewiseLinearCouplingTransform", "PiecewiseQuadraticCouplingTransform", "PiecewiseRationalQuadraticCouplingTransform"},
    "_sample": {"ConditionalDiagonalNormal", "ConditionalIndependentBernoulli", "DiagonalNormal", "Distribution", "Flow", "MADEMoG", "StandardNormal"},
    "_scale_and_shift": {"AdditiveCouplingTransform", "AffineCouplingTransform"},
    "_share_across_batch": {"nflows.transforms.nonlinearities"},
    "_spline": {"PiecewiseCubicCDF", "PiecewiseLinearCDF", "PiecewiseQuadraticCDF", "PiecewiseRationalQuadraticCDF"},
    "_transform_dim_multiplier": {"AdditiveCouplingTransform", "AffineCouplingTransform", "CouplingTransform", "PiecewiseCubicCouplingTransform", "PiecewiseLinearCouplingTransform", "PiecewiseQuadraticCouplingTransform", "PiecewiseRationalQuadraticCouplingTransform", "UMNNCouplingTransform"},
    "_unconstrained_scale_and_shift": {"MaskedAffineAutoregressiveTransform"},
}  # fmt: skip

_CTX = {"program": None, "index": {}, "depth": 0, "stack": []}
MAX_INLINE_DEPTH = 4


def set_program(program):
    """Enable helper inlining: resolve callees in this Program."""
    _CTX["program"] = program
    idx = {}
    if program is not None:
        for f in program.all_functions():
            idx[id(f.node)] = f
    _CTX["index"] = idx


def _inlinable_body(fi):
    """None when the helper cannot be expanded (loops / with / try / yield / nested defs / varargs),
    else the set of its parameters it writes through (x[...] = .., x.attr = .., x += .., x.mul_(..)):
    such a helper is expanded only at call sites that bind those parameters to attribute chains of
    self (module state), where the substituted statement is the very write the caller would do."""
    node = fi.node
    a = node.args
    if a.vararg is not None or a.kwarg is not None:
        return None
    params = {x.arg for x in list(a.posonlyargs) + list(a.args) + list(a.kwonlyargs)}
    sn = fi.self_name()
    mutated = set()
    loop_var_params = {}  # loop variable -> parameters its literal elements name
    loop_targets = set()
    for n in ast.walk(node):
        if n is node:
            continue
        if isinstance(n, ast.For) and isinstance(n.iter, (ast.Tuple, ast.List)) and 0 < len(n.iter.elts) <= 8 and not n.orelse:
            # unrolled by the expansion; a loop variable bound to a parameter / attribute carries
            # its writes to what the elements are
            tnames = [x.id if isinstance(x, ast.Name) else None for x in (n.target.elts if isinstance(n.target, (ast.Tuple, ast.List)) else [n.target])]
            for elt in n.iter.elts:
                subs = elt.elts if isinstance(elt, (ast.Tuple, ast.List)) and len(tnames) > 1 else [elt]
                for pos, sub in enumerate(subs):
                    root = sub
                    while isinstance(root, (ast.Attribute, ast.Subscript)):
                        root = root.value
                    tn = tnames[pos] if pos < len(tnames) else None
                    if tn is not None and isinstance(root, ast.Name) and root.id in params and root.id != sn:
                        loop_var_params.setdefault(tn, set()).add(root.id)
            loop_targets |= {t for t in tnames if t}
            continue
        if isinstance(n, (ast.For, ast.While, ast.With, ast.Try, ast.Yield, ast.YieldFrom, ast.FunctionDef, ast.Lambda, ast.Global, ast.Nonlocal, ast.Await)):
            return None
        tgts = []
        if isinstance(n, ast.Assign):
            tgts = n.targets
        elif isinstance(n, (ast.AugAssign, ast.AnnAssign)):
            tgts = [n.target]
        for t in tgts:
            flat = [t]
            while any(isinstance(x, (ast.Tuple, ast.List, ast.Starred)) for x in flat):
                flat = [y for x in flat for y in (x.elts if isinstance(x, (ast.Tuple, ast.List)) else [x.value] if isinstance(x, ast.Starred) else [x])]
            for sub in flat:
                # what is written is the target's own spine; names inside an index are only read
                if isinstance(sub, (ast.Subscript, ast.Attribute)):
                    root = sub
                    while isinstance(root, (ast.Subscript, ast.Attribute)):
                        root = root.value
                    if isinstance(root, ast.Name) and root.id in params:
                        if root.id == sn:
                            mutated.add("<self>")  # writes module state under its own name: fine when called on the caller's own self
                            continue
                        mutated.add(root.id)
            if isinstance(n, ast.AugAssign) and isinstance(t, ast.Name) and t.id in params:
                mutated.add(t.id)
        if isinstance(n, ast.Call) and isinstance(n.func, ast.Attribute) and n.func.attr.endswith("_") and not n.func.attr.endswith("__"):
            root = n.func.value
            while isinstance(root, (ast.Subscript, ast.Attribute, ast.Call)):
                root = root.func if isinstance(root, ast.Call) else root.value
            if isinstance(root, ast.Name) and root.id in params:
                if root.id == sn:
                    mutated.add("<self>")
                else:
                    mutated.add(root.id)
            elif isinstance(root, ast.Name) and root.id in loop_targets:
                # written through a loop variable: the parameters its literal elements name
                mutated |= loop_var_params.get(root.id, set())
    return mutated


def _only_raises_body(fi):
    body = [st for st in fi.node.body if not (isinstance(st, ast.Expr) and isinstance(st.value, ast.Constant))]
    return bool(body) and all(isinstance(st, ast.Raise) for st in body)


def _kept(target):
    owners = KEEP_OPAQUE.get(target.name)
    if not owners:
        return False
    if target.cls is None:
        return target.module.name in owners
    return any(c.name in owners for c in target.cls.repo_mro()) or any(s.name in owners for s in target.cls.all_subclasses())


def _resolve_helper(call, caller):
    """FuncInfo of an inlinable private helper called by `call` from function `caller`, or None."""
    prog = _CTX["program"]
    if prog is None or caller is None:
        return None
    f = call.func
    target = None
    if isinstance(f, ast.Attribute) and isinstance(f.value, ast.Name) and f.value.id in ("self", "cls") and caller.cls is not None:
        name = f.attr
        if not name.startswith("_") or name.startswith("__"):
            return None
        target = caller.cls.lookup_method(name)
        if target is None or _kept(target):
            return None
        # dynamic dispatch: a subclass of the caller's class may override the helper
        for sub in caller.cls.all_subclasses():
            if sub is not caller.cls and name in sub.methods:
                return None
    elif isinstance(f, ast.Name):
        name = f.id
        if not name.startswith("_") or name.startswith("__"):
            return None
        r = prog.resolve_name(caller.module, name)
        target = r if hasattr(r, "node") and hasattr(r, "params") else None
    elif isinstance(f, ast.Attribute):
        name = f.attr
        if not name.startswith("_") or name.startswith("__"):
            return None
        r = None
        # ClassName._helper(...) from inside the class (static helpers)
        if isinstance(f.value, ast.Name) and caller.cls is not None and f.value.id in [c.name for c in caller.cls.repo_mro()]:
            r = caller.cls.lookup_method(name)
        if r is None:
            try:
                r = prog.resolve_expr(caller.module, f)
            except Exception:
                r = None
        target = r if hasattr(r, "node") and hasattr(r, "params") else None
    if target is None or getattr(target, "is_lambda", False) or target.is_property or _kept(target):
        return None
    if id(target.node) in _CTX["stack"] or _only_raises_body(target):
        return None
    mutated = _inlinable_body(target)
    if mutated is None:
        return None
    if mutated:
        env = _bind_args(call, target)
        if env is None:
            return None
        for pn in mutated:
            if pn == "<self>":
                if isinstance(f, ast.Attribute) and isinstance(f.value, ast.Name) and f.value.id == "self" and caller.cls is not None and not caller.is_static:
                    continue
                return None
            a = env.get(pn)
            root = a
            while isinstance(root, (ast.Attribute, ast.Subscript)):
                root = root.value
            if not (isinstance(a, ast.Attribute) and isinstance(root, ast.Name) and root.id in ("self", "cls")):
                return None  # would write a caller's local tensor: keep the call opaque
    return target


def _bind_args(call, target):
    """{param: argument expression} or None when the call does not fit the signature simply."""
    params = target.params()
    names = [n for n, _ in params]
    env = {}
    if any(isinstance(a, ast.Starred) for a in call.args) or any(k.arg is None for k in call.keywords):
        return None
    if len(call.args) > len(names):
        return None
    for n, a in zip(names, call.args):
        env[n] = a
    for k in call.keywords:
        if k.arg not in names or k.arg in env:
            return None
        env[k.arg] = k.value
    for n, d in params:
        if n not in env:
            if d is None:
                return None
            env[n] = clone(d)
    return env


class _ReplaceNode(ast.NodeTransformer):
    def __init__(self, old, new):
        self.old = old
        self.new = new

    def visit(self, node):
        if node is self.old:
            return self.new
        node = self.generic_visit(node)
        # f(*helper()) with the helper's returned tuple written out: f(a, b)
        if isinstance(node, ast.Call) and any(isinstance(a, ast.Starred) and isinstance(a.value, (ast.Tuple, ast.List)) and not any(isinstance(x, ast.Starred) for x in a.value.elts) for a in node.args):
            new = []
            for a in node.args:
                if isinstance(a, ast.Starred) and isinstance(a.value, (ast.Tuple, ast.List)) and not any(isinstance(x, ast.Starred) for x in a.value.elts):
                    new.extend(a.value.elts)
                else:
                    new.append(a)
            node.args = new
        if isinstance(node, ast.Subscript) and isinstance(node.ctx, ast.Load) and isinstance(node.value, (ast.Tuple, ast.List)) and not any(isinstance(x, ast.Starred) for x in node.value.elts) and isinstance(node.slice, ast.Constant) and isinstance(node.slice.value, int) and not isinstance(node.slice.value, bool) and -len(node.value.elts) <= node.slice.value < len(node.value.elts):
            return node.value.elts[node.slice.value]
        return node


def _replace_node(e, old, new, memo):
    """`e` with the node `old` replaced by `new`: a copy of the spine only, unchanged sub-expressions are
    shared (expanded expressions are DAGs -- a tree walk would visit shared parts once per path to them)"""
    if e is old:
        return new
    if not isinstance(e, ast.AST):
        return e
    k = id(e)
    if k in memo:
        return memo[k]
    changed = False
    vals = {}
    for f in e._fields:
        if not hasattr(e, f):
            continue
        v = getattr(e, f)
        if isinstance(v, ast.AST):
            nv = _replace_node(v, old, new, memo)
            changed |= nv is not v
        elif isinstance(v, list):
            nv = [_replace_node(x, old, new, memo) for x in v]
            changed |= any(a is not b for a, b in zip(nv, v))
        else:
            nv = v
        vals[f] = nv
    if not changed:
        memo[k] = e
        return e
    node = e.__class__(**vals)
    for a in ("lineno", "col_offset", "end_lineno", "end_col_offset"):
        if hasattr(e, a):
            setattr(node, a, getattr(e, a))
    if getattr(e, "_noinline", False):
        node._noinline = True
    # f(*helper()) with the helper's returned tuple written out: f(a, b)
    if isinstance(node, ast.Call) and any(isinstance(a, ast.Starred) and isinstance(a.value, (ast.Tuple, ast.List)) and not any(isinstance(x, ast.Starred) for x in a.value.elts) for a in node.args):
        args = []
        for a in node.args:
            if isinstance(a, ast.Starred) and isinstance(a.value, (ast.Tuple, ast.List)) and not any(isinstance(x, ast.Starred) for x in a.value.elts):
                args.extend(a.value.elts)
            else:
                args.append(a)
        node.args = args
    if isinstance(node, ast.Subscript) and isinstance(node.ctx, ast.Load) and isinstance(node.value, (ast.Tuple, ast.List)) and not any(isinstance(x, ast.Starred) for x in node.value.elts) and isinstance(node.slice, ast.Constant) and isinstance(node.slice.value, int) and not isinstance(node.slice.value, bool) and -len(node.value.elts) <= node.slice.value < len(node.value.elts):
        node = node.value.elts[node.slice.value]
    memo[k] = node
    return node


def _first_helper_call(expr, caller):
    """Innermost-first inlinable call inside an (expanded) expression."""
    found = []

    seen = set()

    def uw(n):
        # expanded expressions are DAGs: visit each object once
        if id(n) in seen:
            return
        seen.add(id(n))
        if isinstance(n, (ast.Lambda, ast.ListComp, ast.GeneratorExp, ast.SetComp, ast.DictComp)):
            return
        for c in ast.iter_child_nodes(n):
            if found:
                return
            uw(c)
        if found:
            return
        if isinstance(n, ast.Call) and not getattr(n, "_noinline", False):
            t = _resolve_helper(n, caller)
            env = _bind_args(n, t) if t is not None else None
            if env is not None:
                found.append((n, t, env))
            else:
                n._noinline = True

    uw(expr)
    return found[0] if found else None


class _FoldConst(ast.NodeTransformer):
    """`a if <closed arithmetic test> else b` -> the branch taken (arguments of an inlined helper
    are often constants: sign=-1, inverse=True)"""

    def visit_IfExp(self, node):
        self.generic_visit(node)
        v = _const_truth(node.test)
        if v is None:
            return node
        return node.body if v else node.orelse


def _const_truth(test):
    from .astutil import _int_eval, _NoEval

    # <arithmetic / display> is None: an operator result or a written-out tuple is never None
    if isinstance(test, ast.Compare) and len(test.ops) == 1 and isinstance(test.ops[0], (ast.Is, ast.IsNot)):
        for a, b in ((test.left, test.comparators[0]), (test.comparators[0], test.left)):
            if isinstance(b, ast.Constant) and b.value is None:
                if isinstance(a, ast.Constant):
                    return (a.value is None) == isinstance(test.ops[0], ast.Is)
                if isinstance(a, (ast.BinOp, ast.Tuple, ast.List, ast.Dict, ast.Compare, ast.JoinedStr)) and not (isinstance(a, ast.BinOp) and isinstance(a.op, (ast.BitOr, ast.BitAnd))):
                    return isinstance(test.ops[0], ast.IsNot)
    if any(isinstance(n, (ast.Name, ast.Attribute, ast.Call, ast.Subscript)) for n in ast.walk(test)):
        return None
    # 'output' == 'output': a local bound to a string tag on this path, compared with a tag
    if isinstance(test, ast.Compare) and len(test.ops) == 1 and isinstance(test.left, ast.Constant) and isinstance(test.comparators[0], ast.Constant) and isinstance(test.left.value, str) and isinstance(test.comparators[0].value, str):
        if isinstance(test.ops[0], ast.Eq):
            return test.left.value == test.comparators[0].value
        if isinstance(test.ops[0], ast.NotEq):
            return test.left.value != test.comparators[0].value
        return None
    try:
        return bool(_int_eval(test, {}))
    except _NoEval:
        return None
    except Exception:
        return None


def _fold_ifexps(e, decide, memo=None):
    """`e` with every conditional expression whose test `decide` answers replaced by the branch taken.
    Memoised on node identity and copying the spine only: expanded expressions are DAGs."""
    if memo is None:
        memo = {}
    if not isinstance(e, ast.AST):
        return e
    k = id(e)
    if k in memo:
        return memo[k]
    if isinstance(e, (ast.Lambda,)):
        memo[k] = e
        return e
    changed = False
    vals = {}
    for f in e._fields:
        if not hasattr(e, f):
            continue
        v = getattr(e, f)
        if isinstance(v, ast.AST):
            nv = _fold_ifexps(v, decide, memo)
            changed |= nv is not v
        elif isinstance(v, list):
            nv = [_fold_ifexps(x, decide, memo) for x in v]
            changed |= any(a is not b for a, b in zip(nv, v))
        else:
            nv = v
        vals[f] = nv
    node = e
    if changed:
        node = e.__class__(**vals)
        for a in ("lineno", "col_offset", "end_lineno", "end_col_offset"):
            if hasattr(e, a):
                setattr(node, a, getattr(e, a))
        for a in ("_noinline", "_from_callee"):
            if getattr(e, a, False):
                setattr(node, a, True)
    if isinstance(node, ast.IfExp):
        v = decide(node.test)
        if v is not None:
            node = node.body if v else node.orelse
    memo[k] = node
    return node


class _FoldAssume(ast.NodeTransformer):
    """`a if <test> else b` with the test decided by the scenario (`inverse` True / False ...)"""

    def __init__(self, assume):
        self.assume = assume

    def visit_IfExp(self, node):
        self.generic_visit(node)
        v = _truth_under(node.test, self.assume)
        if v is None:
            v = _const_truth(node.test)
        if v is None and callable(self.assume.get("__decide__")):
            v = self.assume["__decide__"](node.test)
        if v is None:
            return node
        return node.body if v else node.orelse


class _FoldDecided(ast.NodeTransformer):
    """`a if <test> else b` inside a test, with <test> decided by the scenario, by constants, by an identical
    structural test taken earlier on the path, or by the scenario's decision procedure"""

    def __init__(self, p, assume):
        self.p = p
        self.assume = assume

    def visit_IfExp(self, node):
        self.generic_visit(node)
        v = _truth_under(node.test, self.assume)
        if v is None:
            v = _const_truth(node.test)
        if v is None:
            v = _already_decided(node.test, self.p)
        if v is None and callable(self.assume.get("__decide__")):
            v = self.assume["__decide__"](node.test)
        if v is None:
            return node
        return node.body if v else node.orelse


def _inlined(expr, p, done, assume, max_paths, caller):
    """[(path, expression)]: `expr` with every inlinable helper call replaced by the helper's
    returned expression; the path forks per returning path of the helper (its conditions and
    effects are added); a helper path that raises ends the caller's path as a raise."""
    if expr is not None and assume and any(isinstance(n, ast.IfExp) for n in uwalk(expr)):
        def _dec(test, assume=assume):
            v = _truth_under(test, assume)
            if v is None:
                v = _const_truth(test)
            if v is None and callable(assume.get("__decide__")):
                v = assume["__decide__"](test)
            return v

        expr = _fold_ifexps(expr, _dec)
    if expr is None or caller is None or _CTX["program"] is None or len(_CTX["stack"]) >= MAX_INLINE_DEPTH:
        return [(p, expr)]
    hit = _first_helper_call(expr, caller)
    if hit is None:
        return [(p, expr)]
    call, target, argenv = hit
    sub = p.fork()
    sub.env = dict(argenv)
    sub_done = []
    _CTX["stack"].append(id(target.node))
    try:
        live = _run_block(target.node.body, [sub], sub_done, assume, max_paths, target)
    finally:
        _CTX["stack"].pop()
    for q in live:  # fell off the end: returns None
        q.kind = "return"
        q.ret = ast.Constant(value=None)
        sub_done.append(q)
    out = []
    multi = len(sub_done) > 1
    for q in sub_done:
        if q.kind == "raise":
            q.env = dict(p.env)
            done.append(q)
            continue
        q.env = dict(p.env)
        q.kind = None
        ret = _fold_ifexps(q.ret, _const_truth) if q.ret is not None else q.ret
        q.ret = None
        e2 = _replace_node(expr, call, ret, {}) if expr is not call else ret
        out.extend(_inlined(e2, q, done, assume, max_paths, caller))
    return out


def clone_keep(expr, keep):
    """clone(expr) but the node `keep` (and its subtree) is shared, so that it can be found again."""
    if expr is keep:
        return expr
    if isinstance(expr, ast.AST):
        new = expr.__class__()
        for f in expr._fields:
            if hasattr(expr, f):
                setattr(new, f, clone_keep(getattr(expr, f), keep))
        for a in ("lineno", "col_offset", "end_lineno", "end_col_offset"):
            if hasattr(expr, a):
                setattr(new, a, getattr(expr, a))
        if getattr(expr, "_noinline", False):
            new._noinline = True
        return new
    if isinstance(expr, list):
        return [clone_keep(x, keep) for x in expr]
    return expr


_STRUCTURAL_CALLS = {"dim", "ndimension", "size", "len", "isinstance", "numel", "is_floating_point"}


def _structural_test(e):
    """A test over shapes / ranks / identities only: its value cannot change along a path."""
    n = 0
    for x in uwalk(e):
        n += 1
        if n > 60:
            return False
        if isinstance(x, ast.Call):
            f = x.func
            last = f.attr if isinstance(f, ast.Attribute) else (f.id if isinstance(f, ast.Name) else "")
            if last not in _STRUCTURAL_CALLS:
                return False
        elif not isinstance(x, (ast.Name, ast.Attribute, ast.Constant, ast.Compare, ast.BoolOp, ast.UnaryOp, ast.Subscript, ast.Tuple, ast.List, ast.expr_context, ast.cmpop, ast.boolop, ast.unaryop, ast.BinOp, ast.operator)):
            return False
    return True


def _already_decided(et, p):
    """Polarity of an identical structural test taken earlier on this path (a helper inlined
    into its caller repeats the caller's case distinction: those paths are not forked again)."""
    if not p.conds or not _structural_test(et):
        return None
    t = norm_text(et)
    for e0, _, pol in p.conds:
        if _structural_test(e0) and norm_text(e0) == t:
            return pol
    return None


def paths_of(fnode, assume=None, max_paths=MAX_PATHS, inline=True):
    """All paths through the function body.  `assume`: {normalised test text: bool/const}.
    With a Program registered (set_program) private helpers are expanded at their call sites."""
    assume = assume or {}
    start = Path()
    done = []
    caller = _CTX["index"].get(id(fnode)) if inline else None
    live = _run_block(fnode.body, [start], done, assume, max_paths, caller)
    for p in live:
        p.kind = "fallthrough"
        done.append(p)
    return done


def _run_block(stmts, live, done, assume, max_paths, caller=None):
    for st in stmts:
        nxt = []
        for p in live:
            nxt.extend(_run_stmt(st, p, done, assume, max_paths, caller))
        live = nxt
        if len(live) + len(done) > max_paths:
            raise AnalysisIncomplete("symbolic expansion: more than %d paths" % max_paths)
        if not live:
            break
    return live


def _assign_target(t, val, raw_val, p):
    if isinstance(t, ast.Name):
        p.env[t.id] = val
    elif isinstance(t, (ast.Tuple, ast.List)):
        if isinstance(val, (ast.Tuple, ast.List)) and len(val.elts) == len(t.elts) and not any(isinstance(e, ast.Starred) for e in t.elts):
            for e, v in zip(t.elts, val.elts):
                _assign_target(e, v, None, p)
        else:
            for i, e in enumerate(t.elts):
                if isinstance(e, ast.Starred):
                    _assign_target(e.value, _call("__rest__", val, ast.Constant(value=i)), None, p)
                else:
                    _assign_target(e, component(val, i), None, p)
    elif isinstance(t, ast.Subscript):
        idx = expand(t.slice, p.env)
        base = t.value
        p.effects.append(("store", t, expand(t.value, p.env), idx, val))
        if isinstance(base, ast.Name):
            old = p.env.get(base.id, ast.Name(id=base.id, ctx=ast.Load()))
            p.env[base.id] = _call("__store__", old, idx, val)
    elif isinstance(t, ast.Attribute):
        p.effects.append(("attr", t, expand(t.value, p.env), t.attr, val))
    elif isinstance(t, ast.Starred):
        _assign_target(t.value, val, raw_val, p)


def _run_stmt(st, p, done, assume, max_paths, caller=None):
    if isinstance(st, (ast.Pass, ast.Import, ast.ImportFrom, ast.Global, ast.Nonlocal, ast.Delete)):
        return [p]
    if isinstance(st, ast.FunctionDef):
        return [p]
    if isinstance(st, ast.Expr):
        v = st.value
        if isinstance(v, ast.Constant):
            return [p]
        ev = expand(v, p.env)
        if isinstance(v, ast.Call) and caller is not None and _resolve_helper(v, caller) is not None:
            # a helper called for its effect (a guard that raises): its paths continue or raise
            out = []
            for p2, v2 in _inlined(ev, p, done, assume, max_paths, caller):
                p2.effects.append(("expr", st, v2))
                out.append(p2)
            return out
        p.effects.append(("expr", st, ev))
        if isinstance(v, ast.Call) and isinstance(v.func, ast.Attribute) and isinstance(v.func.value, ast.Name):
            nm = v.func.value.id
            if v.func.attr == "append" and len(v.args) == 1:
                old = p.env.get(nm, ast.Name(id=nm, ctx=ast.Load()))
                p.env[nm] = _call("__append__", old, expand(v.args[0], p.env))
            elif v.func.attr.endswith("_") and not v.func.attr.endswith("__"):
                p.env[nm] = ev  # x.mul_(..) : x is now the result of the in-place chain
        if isinstance(v, ast.Yield):
            p.effects.append(("yield", st, expand(v.value, p.env) if v.value is not None else None))
        return [p]
    if isinstance(st, ast.Assign):
        out = []
        for p2, val in _inlined(expand(st.value, p.env), p, done, assume, max_paths, caller):
            for t in st.targets:
                _assign_target(t, val, st.value, p2)
            out.append(p2)
        return out
    if isinstance(st, ast.AnnAssign):
        if st.value is None:
            return [p]
        out = []
        for p2, val in _inlined(expand(st.value, p.env), p, done, assume, max_paths, caller):
            _assign_target(st.target, val, st.value, p2)
            out.append(p2)
        return out
    if isinstance(st, ast.AugAssign):
        alts = _inlined(expand(st.value, p.env), p, done, assume, max_paths, caller)
        if len(alts) > 1:
            out = []
            for p2, v2 in alts:
                st2 = ast.AugAssign(target=st.target, op=st.op, value=st.value)
                ast.copy_location(st2, st)
                st2._preval = v2
                out.extend(_run_stmt(st2, p2, done, assume, max_paths, None))
            return out
        p, val = alts[0]
        val = getattr(st, "_preval", val)
        t = st.target
        if isinstance(t, ast.Name):
            old = p.env.get(t.id, ast.Name(id=t.id, ctx=ast.Load()))
            p.env[t.id] = ast.BinOp(left=old, op=st.op, right=val)
            p.effects.append(("aug", st, old, val))
        elif isinstance(t, ast.Subscript):
            idx = expand(t.slice, p.env)
            cur = ast.Subscript(value=expand(t.value, p.env), slice=idx, ctx=ast.Load())
            newv = ast.BinOp(left=cur, op=st.op, right=val)
            p.effects.append(("store", t, expand(t.value, p.env), idx, newv))
            if isinstance(t.value, ast.Name):
                old = p.env.get(t.value.id, ast.Name(id=t.value.id, ctx=ast.Load()))
                p.env[t.value.id] = _call("__store__", old, idx, newv)
        else:
            p.effects.append(("aug", st, expand(t, p.env), val))
        return [p]
    if isinstance(st, ast.Return):
        val = expand(st.value, p.env) if st.value is not None else ast.Constant(value=None)
        for p2, v2 in _inlined(val, p, done, assume, max_paths, caller):
            p2.kind = "return"
            p2.ret = v2
            p2.ret_node = st
            done.append(p2)
        return []
    if isinstance(st, ast.Raise):
        p.kind = "raise"
        p.raise_exc = st.exc
        p.ret_node = st
        done.append(p)
        return []
    if isinstance(st, ast.Assert):
        p.effects.append(("assert", st, expand(st.test, p.env)))
        return [p]
    if isinstance(st, ast.If):
        decided = _truth_under(st.test, assume)
        out = []
        for p0, et in _inlined(expand(st.test, p.env), p, done, assume, max_paths, caller):
            if decided is None and any(isinstance(n, ast.IfExp) for n in uwalk(et)):
                # (a if c else None) is not None, with c decided on this path: the test of the chosen value
                def _dec2(test, p0=p0):
                    v = _truth_under(test, assume)
                    if v is None:
                        v = _const_truth(test)
                    if v is None:
                        v = _already_decided(test, p0)
                    if v is None and callable(assume.get("__decide__")):
                        v = assume["__decide__"](test)
                    return v

                et = _fold_ifexps(et, _dec2)
            dec = decided
            if dec is None and p0.env:
                dec = _const_truth(et)  # a test on constant arguments of an inlined helper
            if dec is None:
                dec = _already_decided(et, p0)
            if dec is None and callable(assume.get("__decide__")):
                dec = assume["__decide__"](et)
            if dec is not False:
                p1 = p0.fork() if dec is None else p0
                p1.conds.append((et, st.test, True))
                out.extend(_run_block(st.body, [p1], done, assume, max_paths, caller))
            if dec is not True:
                p2 = p0.fork() if dec is None else p0
                p2.conds.append((et, st.test, False))
                out.extend(_run_block(st.orelse, [p2], done, assume, max_paths, caller))
        return out
    if isinstance(st, ast.For) and isinstance(st.iter, (ast.Tuple, ast.List)) and 0 < len(st.iter.elts) <= 8 and not st.orelse and not any(isinstance(n, (ast.Break, ast.Continue)) for n in ast.walk(st)):
        # a loop over a literal sequence is the sequence of its bodies
        live = [p]
        for elt in st.iter.elts:
            nxt = []
            for q in live:
                _assign_target(st.target, expand(elt, q.env), elt, q)
                nxt.extend(_run_block(st.body, [q], done, assume, max_paths, caller))
            live = nxt
        return live
    if isinstance(st, (ast.For, ast.While)):
        p.in_loop += 1
        if isinstance(st, ast.For):
            it = expand(st.iter, p.env)
            p.effects.append(("for", st, it))
            # the loop variable is an opaque element of the iterable
            for n in ast.walk(st.target):
                if isinstance(n, ast.Name):
                    p.env.pop(n.id, None)
        live = _run_block(st.body, [p], done, assume, max_paths, caller)
        for q in live:
            q.in_loop -= 1
        # zero-iteration path is merged optimistically: rules that care look at ("for", ...) effects
        return live
    if isinstance(st, ast.With):
        p.effects.append(("with", st, [expand(i.context_expr, p.env) for i in st.items]))
        return _run_block(st.body, [p], done, assume, max_paths, caller)
    if isinstance(st, ast.Try):
        # the normal exit (body, then else), and one path per handler entered from the state before the
        # body (the effects of a partially executed body are not modelled: try bodies in this code base
        # are look-ups and checks); `finally` follows every path that goes on
        p.effects.append(("try", st))
        live = _run_block(list(st.body) + list(st.orelse), [p.fork()], done, assume, max_paths, caller)
        for h in st.handlers:
            ph = p.fork()
            ph.conds.append((ast.Name(id="__raised__", ctx=ast.Load()), ast.Name(id="__raised__", ctx=ast.Load()), True))
            if h.name:
                ph.env.pop(h.name, None)
            live.extend(_run_block(h.body, [ph], done, assume, max_paths, caller))
        if st.finalbody:
            live = _run_block(st.finalbody, live, done, assume, max_paths, caller)
        return live
    raise AnalysisIncomplete("unsupported statement %s at line %d" % (type(st).__name__, getattr(st, "lineno", 0)))


def inline_expr(expr, fnode):
    """[(conditions, expression)]: `expr` (as written inside function `fnode`) with the private
    helpers it calls expanded; one alternative per returning path of the helpers."""
    caller = _CTX["index"].get(id(fnode)) if fnode is not None else None
    if expr is None or caller is None:
        return [([], expr)]
    done = []
    try:
        alts = _inlined(clone(expr), Path(), done, {}, MAX_PATHS, caller)
    except AnalysisIncomplete:
        return [([], expr)]
    return [(list(p.conds), e) for p, e in alts] or [([], expr)]


def body_expansion(stmts, fnode=None):
    """{name: expression} after executing a straight-line statement list from an empty
    environment (every name read before it is written stays a free Name); None when the
    statements branch.  With the enclosing function given, private helpers are inlined."""
    done = []
    caller = _CTX["index"].get(id(fnode)) if fnode is not None else None
    live = _run_block(stmts, [Path()], done, {}, MAX_PATHS, caller)
    if len(live) != 1 or done:
        return None
    return live[0].env


def strip_stores(e):
    """The tensor underneath a chain of __store__ nodes, plus the list of (index, value)."""
    stores = []
    while is_store(e):
        stores.append((e.args[1], e.args[2]))
        e = e.args[0]
    return e, list(reversed(stores))


def find_calls(e, pred):
    return [n for n in ast.walk(e) if isinstance(n, ast.Call) and pred(n)]


def callee_text(call):
    try:
        return norm_text(call.func)
    except Exception:
        return ""


# ---------------------------------------------------------------------------------------
# DAG-aware helpers: expansions share sub-trees (every use of a local points at the same
# expanded node), so walking / hashing must visit each node object once.
# ---------------------------------------------------------------------------------------


def uwalk(e):
    """Like ast.walk but visits every node *object* once (linear in the DAG size)."""
    seen = set()
    stack = [e]
    while stack:
        n = stack.pop()
        if id(n) in seen:
            continue
        seen.add(id(n))
        yield n
        for c in ast.iter_child_nodes(n):
            stack.append(c)


_HASH = {}


def shash(e):
    """Structural hash (equal trees get equal hashes), memoised per node object."""
    k = id(e)
    h = _HASH.get(k)
    if h is not None and h[0] is e:
        return h[1]
    if isinstance(e, ast.AST):
        parts = [type(e).__name__]
        for f in e._fields:
            if f == "ctx":
                continue
            v = getattr(e, f, None)
            if isinstance(v, list):
                parts.append(tuple(shash(x) for x in v))
            else:
                parts.append(shash(v))
        r = hash(tuple(parts))
    elif isinstance(e, list):
        r = hash(tuple(shash(x) for x in e))
    else:
        r = hash((type(e).__name__, repr(e)))
    if isinstance(e, ast.AST):
        _HASH[k] = (e, r)
    return r


def size_upto(e, limit):
    n = 0
    for _ in uwalk(e):
        n += 1
        if n > limit:
            return n
    return n


def brief(e, limit=400):
    """Text of small expressions; a stable placeholder for huge ones."""
    if e is None:
        return "None"
    if size_upto(e, limit) <= limit:
        return norm_text(e)
    return "<%s #%x>" % (type(e).__name__, shash(e) & 0xFFFFFF)


def unames(e):
    return {n.id for n in uwalk(e) if isinstance(n, ast.Name)}
