"""Path-wise symbolic expansion of a function body (DESIGN 1.3, def-use by substitution).

For every control-flow path (if/else forks; loops are entered once) the locals are expanded to
expressions over the function's parameters, `self` attributes and calls, so that a rule can
look at "what is returned on this path" as one expression tree, however the code spells the
intermediate steps.  Nothing is executed; expressions stay syntax trees.

Synthetic nodes:
  __component__(call, i)     the i-th element of a tuple-returning call
  __store__(old, index, v)   the tensor `old` after `old[index] = v`
  __append__(old, v)         the list `old` after `old.append(v)`
  __loop__(x)                a value produced inside a loop body (one representative iteration)
"""

import ast
import copy

from .model import AnalysisIncomplete, norm_text

MAX_PATHS = 512


def _call(name, *args):
    return ast.Call(func=ast.Name(id=name, ctx=ast.Load()), args=list(args), keywords=[])


def component(call, i):
    return _call("__component__", call, ast.Constant(value=i))


def is_component(e):
    return isinstance(e, ast.Call) and isinstance(e.func, ast.Name) and e.func.id == "__component__"


def is_store(e):
    return isinstance(e, ast.Call) and isinstance(e.func, ast.Name) and e.func.id == "__store__"


def is_synth(e, name):
    return isinstance(e, ast.Call) and isinstance(e.func, ast.Name) and e.func.id == name


class Path:
    def __init__(self):
        self.env = {}
        self.conds = []  # (expanded test, raw test, polarity)
        self.kind = None  # return | raise | fallthrough
        self.ret = None
        self.raise_exc = None
        self.effects = []  # (kind, node, expanded...) in order
        self.in_loop = 0

    def fork(self):
        p = Path()
        p.env = dict(self.env)
        p.conds = list(self.conds)
        p.effects = list(self.effects)
        p.in_loop = self.in_loop
        return p


class Subst(ast.NodeTransformer):
    def __init__(self, env):
        self.env = env

    def visit_Name(self, node):
        if isinstance(node.ctx, ast.Load) and node.id in self.env:
            return self.env[node.id]
        return node

    def visit_Lambda(self, node):
        return node

    def visit_ListComp(self, node):
        return self._comp(node)

    def visit_GeneratorExp(self, node):
        return self._comp(node)

    def _comp(self, node):
        bound = set()
        for g in node.generators:
            for n in ast.walk(g.target):
                if isinstance(n, ast.Name):
                    bound.add(n.id)
        env2 = {k: v for k, v in self.env.items() if k not in bound}
        new = copy.copy(node)
        sub = Subst(env2)
        new.elt = sub.visit(clone(node.elt))
        gens = []
        for g in node.generators:
            g2 = copy.copy(g)
            g2.iter = sub.visit(clone(g.iter))
            g2.ifs = [sub.visit(clone(i)) for i in g.ifs]
            gens.append(g2)
        new.generators = gens
        return new


def clone(node):
    """Structural copy over _fields only (never follows the _parent back-pointers)."""
    if isinstance(node, ast.AST):
        new = node.__class__()
        for f in node._fields:
            if hasattr(node, f):
                setattr(new, f, clone(getattr(node, f)))
        for a in ("lineno", "col_offset", "end_lineno", "end_col_offset"):
            if hasattr(node, a):
                setattr(new, a, getattr(node, a))
        return new
    if isinstance(node, list):
        return [clone(x) for x in node]
    return node


def expand(expr, env):
    if expr is None:
        return None
    return Subst(env).visit(clone(expr))


def _truth_under(test, assume):
    """True/False/None for `test` given assumed constants {name or text: value}."""
    if isinstance(test, ast.UnaryOp) and isinstance(test.op, ast.Not):
        v = _truth_under(test.operand, assume)
        return None if v is None else (not v)
    if isinstance(test, ast.BoolOp):
        vals = [_truth_under(v, assume) for v in test.values]
        if isinstance(test.op, ast.And):
            if any(v is False for v in vals):
                return False
            return True if all(v is True for v in vals) else None
        if any(v is True for v in vals):
            return True
        return False if all(v is False for v in vals) else None
    t = norm_text(test)
    if t in assume:
        return bool(assume[t])
    if isinstance(test, ast.Compare) and len(test.ops) == 1:
        l = norm_text(test.left)
        c = test.comparators[0]
        if l in assume and isinstance(c, ast.Constant):
            v = assume[l]
            op = test.ops[0]
            if isinstance(op, ast.Is):
                return v is c.value
            if isinstance(op, ast.IsNot):
                return v is not c.value
            if isinstance(op, ast.Eq):
                return v == c.value
            if isinstance(op, ast.NotEq):
                return v != c.value
    return None


def paths_of(fnode, assume=None, max_paths=MAX_PATHS):
    """All paths through the function body.  `assume`: {normalised test text: bool/const}."""
    assume = assume or {}
    start = Path()
    done = []
    live = _run_block(fnode.body, [start], done, assume, max_paths)
    for p in live:
        p.kind = "fallthrough"
        done.append(p)
    return done


def _run_block(stmts, live, done, assume, max_paths):
    for st in stmts:
        nxt = []
        for p in live:
            nxt.extend(_run_stmt(st, p, done, assume, max_paths))
        live = nxt
        if len(live) + len(done) > max_paths:
            raise AnalysisIncomplete("symbolic expansion: more than %d paths" % max_paths)
        if not live:
            break
    return live


def _assign_target(t, val, raw_val, p):
    if isinstance(t, ast.Name):
        p.env[t.id] = val
    elif isinstance(t, (ast.Tuple, ast.List)):
        if isinstance(val, (ast.Tuple, ast.List)) and len(val.elts) == len(t.elts) and not any(isinstance(e, ast.Starred) for e in t.elts):
            for e, v in zip(t.elts, val.elts):
                _assign_target(e, v, None, p)
        else:
            for i, e in enumerate(t.elts):
                if isinstance(e, ast.Starred):
                    _assign_target(e.value, _call("__rest__", val, ast.Constant(value=i)), None, p)
                else:
                    _assign_target(e, component(val, i), None, p)
    elif isinstance(t, ast.Subscript):
        idx = expand(t.slice, p.env)
        base = t.value
        p.effects.append(("store", t, expand(t.value, p.env), idx, val))
        if isinstance(base, ast.Name):
            old = p.env.get(base.id, ast.Name(id=base.id, ctx=ast.Load()))
            p.env[base.id] = _call("__store__", old, idx, val)
    elif isinstance(t, ast.Attribute):
        p.effects.append(("attr", t, expand(t.value, p.env), t.attr, val))
    elif isinstance(t, ast.Starred):
        _assign_target(t.value, val, raw_val, p)


def _run_stmt(st, p, done, assume, max_paths):
    if isinstance(st, (ast.Pass, ast.Import, ast.ImportFrom, ast.Global, ast.Nonlocal, ast.Delete)):
        return [p]
    if isinstance(st, ast.FunctionDef):
        return [p]
    if isinstance(st, ast.Expr):
        v = st.value
        if isinstance(v, ast.Constant):
            return [p]
        ev = expand(v, p.env)
        p.effects.append(("expr", st, ev))
        if isinstance(v, ast.Call) and isinstance(v.func, ast.Attribute) and isinstance(v.func.value, ast.Name):
            nm = v.func.value.id
            if v.func.attr == "append" and len(v.args) == 1:
                old = p.env.get(nm, ast.Name(id=nm, ctx=ast.Load()))
                p.env[nm] = _call("__append__", old, expand(v.args[0], p.env))
            elif v.func.attr.endswith("_") and not v.func.attr.endswith("__"):
                p.env[nm] = ev  # x.mul_(..) : x is now the result of the in-place chain
        if isinstance(v, ast.Yield):
            p.effects.append(("yield", st, expand(v.value, p.env) if v.value is not None else None))
        return [p]
    if isinstance(st, ast.Assign):
        val = expand(st.value, p.env)
        if p.in_loop:
            pass
        for t in st.targets:
            _assign_target(t, val, st.value, p)
        return [p]
    if isinstance(st, ast.AnnAssign):
        if st.value is not None:
            _assign_target(st.target, expand(st.value, p.env), st.value, p)
        return [p]
    if isinstance(st, ast.AugAssign):
        val = expand(st.value, p.env)
        t = st.target
        if isinstance(t, ast.Name):
            old = p.env.get(t.id, ast.Name(id=t.id, ctx=ast.Load()))
            p.env[t.id] = ast.BinOp(left=old, op=st.op, right=val)
            p.effects.append(("aug", st, old, val))
        elif isinstance(t, ast.Subscript):
            idx = expand(t.slice, p.env)
            cur = ast.Subscript(value=expand(t.value, p.env), slice=idx, ctx=ast.Load())
            newv = ast.BinOp(left=cur, op=st.op, right=val)
            p.effects.append(("store", t, expand(t.value, p.env), idx, newv))
            if isinstance(t.value, ast.Name):
                old = p.env.get(t.value.id, ast.Name(id=t.value.id, ctx=ast.Load()))
                p.env[t.value.id] = _call("__store__", old, idx, newv)
        else:
            p.effects.append(("aug", st, expand(t, p.env), val))
        return [p]
    if isinstance(st, ast.Return):
        p.kind = "return"
        p.ret = expand(st.value, p.env) if st.value is not None else ast.Constant(value=None)
        p.ret_node = st
        done.append(p)
        return []
    if isinstance(st, ast.Raise):
        p.kind = "raise"
        p.raise_exc = st.exc
        p.ret_node = st
        done.append(p)
        return []
    if isinstance(st, ast.Assert):
        p.effects.append(("assert", st, expand(st.test, p.env)))
        return [p]
    if isinstance(st, ast.If):
        decided = _truth_under(st.test, assume)
        et = expand(st.test, p.env)
        out = []
        if decided is not False:
            p1 = p.fork() if decided is None else p
            p1.conds.append((et, st.test, True))
            out.extend(_run_block(st.body, [p1], done, assume, max_paths))
        if decided is not True:
            p2 = p.fork() if decided is None else p
            p2.conds.append((et, st.test, False))
            out.extend(_run_block(st.orelse, [p2], done, assume, max_paths))
        return out
    if isinstance(st, (ast.For, ast.While)):
        p.in_loop += 1
        if isinstance(st, ast.For):
            it = expand(st.iter, p.env)
            p.effects.append(("for", st, it))
            # the loop variable is an opaque element of the iterable
            for n in ast.walk(st.target):
                if isinstance(n, ast.Name):
                    p.env.pop(n.id, None)
        live = _run_block(st.body, [p], done, assume, max_paths)
        for q in live:
            q.in_loop -= 1
        # zero-iteration path is merged optimistically: rules that care look at ("for", ...) effects
        return live
    if isinstance(st, ast.With):
        p.effects.append(("with", st, [expand(i.context_expr, p.env) for i in st.items]))
        return _run_block(st.body, [p], done, assume, max_paths)
    if isinstance(st, ast.Try):
        raise AnalysisIncomplete("try statement at line %d" % st.lineno)
    raise AnalysisIncomplete("unsupported statement %s at line %d" % (type(st).__name__, getattr(st, "lineno", 0)))


def strip_stores(e):
    """The tensor underneath a chain of __store__ nodes, plus the list of (index, value)."""
    stores = []
    while is_store(e):
        stores.append((e.args[1], e.args[2]))
        e = e.args[0]
    return e, list(reversed(stores))


def find_calls(e, pred):
    return [n for n in ast.walk(e) if isinstance(n, ast.Call) and pred(n)]


def callee_text(call):
    try:
        return norm_text(call.func)
    except Exception:
        return ""


# ---------------------------------------------------------------------------------------
# DAG-aware helpers: expansions share sub-trees (every use of a local points at the same
# expanded node), so walking / hashing must visit each node object once.
# ---------------------------------------------------------------------------------------


def uwalk(e):
    """Like ast.walk but visits every node *object* once (linear in the DAG size)."""
    seen = set()
    stack = [e]
    while stack:
        n = stack.pop()
        if id(n) in seen:
            continue
        seen.add(id(n))
        yield n
        for c in ast.iter_child_nodes(n):
            stack.append(c)


_HASH = {}


def shash(e):
    """Structural hash (equal trees get equal hashes), memoised per node object."""
    k = id(e)
    h = _HASH.get(k)
    if h is not None and h[0] is e:
        return h[1]
    if isinstance(e, ast.AST):
        parts = [type(e).__name__]
        for f in e._fields:
            if f == "ctx":
                continue
            v = getattr(e, f, None)
            if isinstance(v, list):
                parts.append(tuple(shash(x) for x in v))
            else:
                parts.append(shash(v))
        r = hash(tuple(parts))
    elif isinstance(e, list):
        r = hash(tuple(shash(x) for x in e))
    else:
        r = hash((type(e).__name__, repr(e)))
    if isinstance(e, ast.AST):
        _HASH[k] = (e, r)
    return r


def size_upto(e, limit):
    n = 0
    for _ in uwalk(e):
        n += 1
        if n > limit:
            return n
    return n


def brief(e, limit=400):
    """Text of small expressions; a stable placeholder for huge ones."""
    if e is None:
        return "None"
    if size_upto(e, limit) <= limit:
        return norm_text(e)
    return "<%s #%x>" % (type(e).__name__, shash(e) & 0xFFFFFF)


def unames(e):
    return {n.id for n in uwalk(e) if isinstance(n, ast.Name)}
